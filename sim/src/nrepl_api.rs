//! threadsim: the real nREPL server threads under the seeded shuttle scheduler.
//!
//! Compiled as a child module of /repo/src/nrepl.rs (hook H4), so `super::`
//! reaches `serve_connection`, `Connection`, `read_message`, `write_message` ...
//! Through hooks H4/H5 the server's `thread`, `mpsc` and `TcpStream` are the
//! shim types of /verif/sim/src/shim.rs, so every spawn, send, receive, join,
//! sleep, timer expiry and blocking socket read is a decision of the seeded
//! scheduler, and hook H2 makes every evaluation step (where the evaluator
//! reads the shared interrupt flag) a scheduling point.
//!
//! Real code: serve_connection (read/dispatch loop, shutdown sequence),
//! writer_thread, Connection, handle_message, dispatch_to_session,
//! session_worker, handle_eval / eval_code_in_namespace, spawn_output_flusher,
//! flush_output_buffer, sigint_watchdog, read_message, write_message, the whole
//! evaluator.  One or two connections are served concurrently, each driven by
//! a simulated client thread.  Stubs: the accept loop of run_nrepl (it spawns
//! with a fully qualified std::thread; the scenario spawns serve_connection
//! the same way), the socket (an in-memory endpoint with injected EINTR,
//! short reads/writes, chunked delivery, EOF mid-message and EPIPE), timers.
//!
//! Generic executor: one scenario (JSON) per stdin line, one result per line.

use super::*;
use crate::verif_sim::shim;
use crate::verif_sim::util;
use std::io::{BufRead, Write as IoWrite};
use std::sync::atomic::{AtomicU64, AtomicUsize};

static EVENTS: Mutex<Vec<serde_json::Value>> = Mutex::new(Vec::new());
static EVENT_NO: AtomicU64 = AtomicU64::new(0);
static USE_SWITCH: AtomicBool = AtomicBool::new(false);
static STEP_BUDGET: AtomicUsize = AtomicUsize::new(100_000);
static CODEC_INTERRUPTED: AtomicU64 = AtomicU64::new(0);
static CODEC_SHORT_WRITES: AtomicU64 = AtomicU64::new(0);
static CODEC_SHORT_READS: AtomicU64 = AtomicU64::new(0);
static COALESCED_READS: AtomicU64 = AtomicU64::new(0);

fn log_event(mut v: serde_json::Value) {
    let n = EVENT_NO.fetch_add(1, Ordering::SeqCst) + 1;
    v["n"] = serde_json::json!(n);
    EVENTS.lock().unwrap().push(v);
}

fn thread_name() -> String {
    shuttle::thread::current()
        .name()
        .map(|s| s.to_owned())
        .unwrap_or_else(|| "main".to_owned())
}

fn sched_point() {
    if USE_SWITCH.load(Ordering::Relaxed) {
        shuttle::thread::sleep(Duration::ZERO);
    } else {
        shuttle::thread::yield_now();
    }
}

/// Hook H2 in threadsim mode: a scheduling point, then the record of what
/// the evaluator is about to read.
pub(crate) fn on_step(
    env: &mut Env,
    session: &Session,
    _st: &crate::eval::ExpressionState,
    _e: &Rc<crate::parser::ast::Expression>,
) {
    sched_point();
    // No scheduling point separates this record from the evaluator's own load.
    let flag = session.interrupted.load(Ordering::SeqCst);
    log_event(serde_json::json!({
        "k": "C", "thread": thread_name(), "tick": env.ticks, "flag": flag,
        "ptr": format!("{:p}", Arc::as_ptr(&session.interrupted)),
    }));
    if env.ticks > STEP_BUDGET.load(Ordering::Relaxed) {
        // Harness safety net only: generated programs are finite.
        log_event(serde_json::json!({"k": "BUDGET", "thread": thread_name()}));
        session.interrupted.store(true, Ordering::SeqCst);
    }
}

pub(crate) fn on_worker_reset(flag: &Arc<AtomicBool>) {
    // Immediately after the worker's `interrupted.store(false)`; no scheduling
    // point in between.
    log_event(serde_json::json!({
        "k": "R", "thread": thread_name(), "ptr": format!("{:p}", Arc::as_ptr(flag)),
    }));
}

pub(crate) fn on_watchdog_store(flag: &Arc<AtomicBool>) {
    log_event(serde_json::json!({
        "k": "I", "src": "watchdog", "thread": thread_name(), "ptr": format!("{:p}", Arc::as_ptr(flag)),
    }));
}

// ---------------------------------------------------------------------
// probes of hook H5 (serve_connection)
// ---------------------------------------------------------------------

fn conn_of_thread() -> i64 {
    // serve_connection threads are named "nrepl-client-<c>" by the scenario
    thread_name()
        .strip_prefix("nrepl-client-")
        .and_then(|s| s.parse::<i64>().ok())
        .unwrap_or(-1)
}

fn log_registry(conn: &Connection, c: i64) {
    let mut ids: Vec<&String> = conn.sessions.keys().collect();
    ids.sort();
    for id in ids {
        let st = &conn.sessions[id];
        log_event(serde_json::json!({
            "k": "SESSION", "conn": c, "session": id, "ptr": format!("{:p}", Arc::as_ptr(&st.interrupted)),
        }));
    }
}

/// In serve_connection, immediately before `handle_message(&mut conn, &request)`.
/// Records the delivered request and - for `interrupt` / `close` of a live
/// session - the flag write handle_message is about to make (no scheduling
/// point separates this record from that store).
pub(crate) fn probe_request(conn: &Connection, request: &HashMap<Vec<u8>, Value>) {
    if crate::verif_sim::MODE.load(Ordering::Relaxed) != crate::verif_sim::MODE_SHUTTLE {
        return;
    }
    let c = conn_of_thread();
    log_registry(conn, c);
    log_event(serde_json::json!({
        "k": "REQ", "conn": c, "msg": bencode_to_json(&Value::Dict(request.clone())),
    }));
    let opname = dict_get(request, "op").and_then(as_str).unwrap_or("");
    if opname == "interrupt" || opname == "close" {
        if let Some(s) = dict_get(request, "session").and_then(as_str) {
            if let Some(st) = conn.sessions.get(s) {
                log_event(serde_json::json!({
                    "k": "I", "src": opname, "conn": c, "session": s,
                    "ptr": format!("{:p}", Arc::as_ptr(&st.interrupted)),
                }));
            }
        }
    }
}

/// In serve_connection, immediately before the shutdown sequence stores `true`
/// into every session's flag and drops the connection.
pub(crate) fn probe_shutdown(conn: &Connection) {
    if crate::verif_sim::MODE.load(Ordering::Relaxed) != crate::verif_sim::MODE_SHUTTLE {
        return;
    }
    let c = conn_of_thread();
    log_registry(conn, c);
    let mut ids: Vec<&String> = conn.sessions.keys().collect();
    ids.sort();
    for id in ids {
        let s = &conn.sessions[id];
        log_event(serde_json::json!({
            "k": "I", "src": "disconnect", "conn": c, "session": id,
            "ptr": format!("{:p}", Arc::as_ptr(&s.interrupted)),
        }));
    }
    log_event(serde_json::json!({"k": "CONN-SHUTDOWN", "conn": c}));
}

// ---------------------------------------------------------------------
// the simulated socket: one endpoint per connection (server side)
// ---------------------------------------------------------------------

struct ReadSide {
    rx: mpsc::Receiver<Vec<u8>>,
    buf: std::collections::VecDeque<u8>,
    eof: bool,
}

struct WriteSide {
    bytes: Vec<u8>,
    decoded_upto: usize,
    n_msgs: u64,
    /// bytes of the message being written that write_all has not handed over yet
    remaining: usize,
    plan_interrupt: bool,
    plan_short: Option<u32>,
    dead: bool,
}

/// Server-side endpoint of a simulated connection.  Client->server bytes
/// arrive in the chunks the simulated client sent (a blocking read on an empty
/// stream is a scheduling point); each read may fail with `Interrupted` or
/// return fewer bytes than are available; the stream ends (EOF) when the
/// client closes, possibly in the middle of a message.  Server->client bytes
/// are decoded as they arrive (the client's view of the wire); each message
/// may be hit by one `Interrupted` and one short write, and the socket may
/// break (EPIPE) after a chosen number of messages.  All decisions come from
/// shuttle::rand, a constant number of draws per read call and per written
/// message, so the stream of draws does not depend on message lengths.
struct Endpoint {
    conn: i64,
    rd: Mutex<ReadSide>,
    wr: Mutex<WriteSide>,
    done_ids: Arc<Mutex<std::collections::HashSet<String>>>,
    rd_int: u32,
    rd_short: u32,
    wr_int: u32,
    wr_short: u32,
    die_after: Option<u64>,
}

impl shim::net::SimEndpoint for Endpoint {
    fn read(&self, out: &mut [u8]) -> io::Result<usize> {
        use shuttle::rand::Rng;
        let (a, b, c) = {
            let mut rng = shuttle::rand::thread_rng();
            (rng.gen_range(0u32..1000), rng.gen_range(0u32..1000), rng.gen_range(0u32..1_000_000))
        };
        if a < self.rd_int {
            CODEC_INTERRUPTED.fetch_add(1, Ordering::Relaxed);
            return Err(io::Error::new(io::ErrorKind::Interrupted, "simulated EINTR"));
        }
        if out.is_empty() {
            return Ok(0);
        }
        let mut rd = self.rd.lock().unwrap();
        if rd.buf.is_empty() {
            if rd.eof {
                return Ok(0);
            }
            // blocking read: a scheduling point owned by the seeded scheduler
            match rd.rx.recv() {
                Ok(chunk) => rd.buf.extend(chunk),
                Err(_) => {
                    rd.eof = true;
                    log_event(serde_json::json!({"k": "CLIENT-EOF", "conn": self.conn}));
                    return Ok(0);
                }
            }
            // TCP is a byte stream: whatever else the client has sent by now may be
            // delivered by the same read (several requests in one segment)
            if c % 2 == 0 {
                while let Ok(chunk) = rd.rx.try_recv() {
                    rd.buf.extend(chunk);
                    COALESCED_READS.fetch_add(1, Ordering::Relaxed);
                }
            }
        }
        let avail = rd.buf.len().min(out.len());
        let mut n = avail;
        if avail > 1 && b < self.rd_short {
            n = 1 + (c as usize) % (avail - 1);
            CODEC_SHORT_READS.fetch_add(1, Ordering::Relaxed);
        }
        for slot in out.iter_mut().take(n) {
            *slot = rd.buf.pop_front().unwrap();
        }
        Ok(n)
    }

    fn write(&self, buf: &[u8]) -> io::Result<usize> {
        use shuttle::rand::Rng;
        let mut wr = self.wr.lock().unwrap();
        if wr.dead {
            return Err(io::Error::new(io::ErrorKind::BrokenPipe, "simulated EPIPE"));
        }
        if buf.is_empty() {
            return Ok(0);
        }
        if wr.remaining == 0 {
            // a new message (write_message hands write_all the whole encoding)
            let (a, b, c) = {
                let mut rng = shuttle::rand::thread_rng();
                (rng.gen_range(0u32..1000), rng.gen_range(0u32..1000), rng.gen_range(0u32..1_000_000))
            };
            wr.remaining = buf.len();
            wr.plan_interrupt = a < self.wr_int;
            wr.plan_short = if b < self.wr_short { Some(c) } else { None };
        }
        if wr.plan_interrupt {
            wr.plan_interrupt = false;
            CODEC_INTERRUPTED.fetch_add(1, Ordering::Relaxed);
            return Err(io::Error::new(io::ErrorKind::Interrupted, "simulated EINTR"));
        }
        let mut n = buf.len();
        if let Some(c) = wr.plan_short.take() {
            if n > 1 {
                n = 1 + (c as usize) % (n - 1);
                CODEC_SHORT_WRITES.fetch_add(1, Ordering::Relaxed);
            }
        }
        wr.remaining = wr.remaining.saturating_sub(n);
        wr.bytes.extend_from_slice(&buf[..n]);
        // the client decodes whatever complete messages have arrived
        loop {
            let upto = wr.decoded_upto;
            let mut cur = std::io::Cursor::new(&wr.bytes[upto..]);
            match read_message(&mut cur) {
                Ok(Some(mut v)) => {
                    let used = cur.position() as usize;
                    wr.decoded_upto += used;
                    wr.n_msgs += 1;
                    // `eval-msec` is the one field that reads the real clock
                    if let Value::Dict(d) = &mut v {
                        if let Some(x) = d.get_mut(b"eval-msec".as_slice()) {
                            *x = Value::Int(0);
                        }
                    }
                    let j = bencode_to_json(&v);
                    if let (Some(id), Some(st)) = (j["id"].as_str(), j["status"].as_array()) {
                        if st.iter().any(|s| s.as_str() == Some("done")) {
                            self.done_ids.lock().unwrap().insert(id.to_owned());
                        }
                    }
                    log_event(serde_json::json!({"k": "WIRE", "conn": self.conn, "msg": j}));
                }
                _ => break,
            }
        }
        if let Some(lim) = self.die_after {
            if wr.n_msgs >= lim && wr.remaining == 0 && !wr.dead {
                // the socket breaks: every later write fails, the writer thread exits
                wr.dead = true;
                log_event(serde_json::json!({"k": "WRITER-DIED", "conn": self.conn}));
            }
        }
        Ok(n)
    }

    fn flush(&self) -> io::Result<()> {
        Ok(())
    }
}

// ---------------------------------------------------------------------
// the scenario: real serve_connection threads, simulated clients
// ---------------------------------------------------------------------

fn client(
    c: i64,
    ops: Vec<serde_json::Value>,
    eof_mid: bool,
    tx: mpsc::Sender<Vec<u8>>,
    done_ids: Arc<Mutex<std::collections::HashSet<String>>>,
    global_interrupted: Arc<AtomicBool>,
) {
    let n_ops = ops.len();
    let last_msg = ops.iter().rposition(|o| o["op"] == "msg");
    let mut glued: Vec<u8> = vec![];
    for (oi, op) in ops.iter().enumerate() {
        for _ in 0..op["yields"].as_u64().unwrap_or(0) {
            sched_point();
        }
        match op["op"].as_str().unwrap_or("") {
            "msg" | "raw" => {
                let v = json_to_bencode(if op["op"] == "msg" { op["fields"].clone() } else { op["value"].clone() });
                let mut bytes: Vec<u8> = vec![];
                write_message(&mut bytes, &v).expect("encode request");
                let mut cut = false;
                if eof_mid && Some(oi) == last_msg && bytes.len() > 2 {
                    // client crash in the middle of its last message
                    bytes.truncate(bytes.len() / 2);
                    cut = true;
                }
                log_event(serde_json::json!({"k": "CLIENT-SEND", "conn": c, "op_index": oi, "cut": cut}));
                // delivered in the chunks the client's TCP stack happened to cut
                let mut cuts: Vec<usize> = op["chunks"]
                    .as_array()
                    .map(|a| a.iter().filter_map(|x| x.as_u64()).map(|x| (x as usize * bytes.len()) / 1000).collect())
                    .unwrap_or_default();
                cuts.retain(|&x| x > 0 && x < bytes.len());
                cuts.sort();
                cuts.dedup();
                if op["glue"].as_bool().unwrap_or(false) && !cut {
                    // written back to back with the next request: one segment
                    glued.extend(bytes);
                    continue;
                }
                if !glued.is_empty() {
                    let mut all = std::mem::take(&mut glued);
                    all.extend(bytes);
                    bytes = all;
                }
                let mut from = 0usize;
                for cut_at in cuts.into_iter().chain(std::iter::once(bytes.len())) {
                    if tx.send(bytes[from..cut_at].to_vec()).is_err() {
                        return;
                    }
                    from = cut_at;
                    if from < bytes.len() {
                        sched_point();
                    }
                }
                if cut {
                    break;
                }
            }
            "sigint" => {
                if !glued.is_empty() && tx.send(std::mem::take(&mut glued)).is_err() {
                    return;
                }
                log_event(serde_json::json!({"k": "SIGINT", "conn": c}));
                global_interrupted.store(true, Ordering::SeqCst);
            }
            "wait" => {
                // a synchronous client: wait (bounded) for the `done` of an earlier request
                if !glued.is_empty() && tx.send(std::mem::take(&mut glued)).is_err() {
                    return;
                }
                let id = op["id"].as_str().unwrap_or("").to_owned();
                let mut polls = op["polls"].as_u64().unwrap_or(200);
                while polls > 0 && !done_ids.lock().unwrap().contains(&id) {
                    polls -= 1;
                    sched_point();
                }
                log_event(serde_json::json!({"k": "CLIENT-WAITED", "conn": c, "id": id, "satisfied": polls > 0}));
            }
            "disconnect" => break,
            _ => {}
        }
        let _ = n_ops;
    }
    if !glued.is_empty() {
        let _ = tx.send(std::mem::take(&mut glued));
    }
    log_event(serde_json::json!({"k": "CLIENT-CLOSED", "conn": c}));
    drop(tx);
}

fn scenario(sc: &serde_json::Value) {
    let global_interrupted = Arc::new(AtomicBool::new(false));
    let temp: Arc<Option<crate::temp_built_in_files::TempBuiltInFiles>> = Arc::new(None);
    let empty = vec![];
    let conns = sc["conns"].as_array().unwrap_or(&empty);
    let mut handles = vec![];
    for (ci, cs) in conns.iter().enumerate() {
        let c = ci as i64;
        let codec = &cs["codec"];
        let (tx, rx) = mpsc::channel::<Vec<u8>>();
        let done_ids = Arc::new(Mutex::new(std::collections::HashSet::new()));
        let ep = Endpoint {
            conn: c,
            rd: Mutex::new(ReadSide { rx, buf: Default::default(), eof: false }),
            wr: Mutex::new(WriteSide {
                bytes: vec![], decoded_upto: 0, n_msgs: 0, remaining: 0,
                plan_interrupt: false, plan_short: None, dead: false,
            }),
            done_ids: Arc::clone(&done_ids),
            rd_int: codec["read_interrupted_permille"].as_u64().unwrap_or(0) as u32,
            rd_short: codec["read_short_permille"].as_u64().unwrap_or(0) as u32,
            wr_int: codec["write_interrupted_permille"].as_u64().unwrap_or(0) as u32,
            wr_short: codec["write_short_permille"].as_u64().unwrap_or(0) as u32,
            die_after: cs["drop_receiver_after"].as_u64(),
        };
        let ep: Arc<dyn shim::net::SimEndpoint> = Arc::new(ep);
        let ep_check = Arc::clone(&ep);
        let stream = shim::net::TcpStream::Sim(ep);
        let g = Arc::clone(&global_interrupted);
        let t = Arc::clone(&temp);
        // what run_nrepl's accept loop does for an accepted connection
        let server = thread::Builder::new()
            .name(format!("nrepl-client-{c}"))
            .spawn(move || serve_connection(stream, g, t))
            .expect("spawn serve_connection");
        let ops = cs["ops"].as_array().cloned().unwrap_or_default();
        let eof_mid = codec["eof_mid_message"].as_bool().unwrap_or(false);
        let g2 = Arc::clone(&global_interrupted);
        let cl = thread::Builder::new()
            .name(format!("sim-client-{c}"))
            .spawn(move || client(c, ops, eof_mid, tx, done_ids, g2))
            .expect("spawn client");
        handles.push((c, server, cl, ep_check));
    }
    for (c, server, cl, _ep) in handles {
        let _ = cl.join();
        let r = server.join();
        log_event(serde_json::json!({"k": "CONN-ENDED", "conn": c, "panicked": r.is_err()}));
    }
}

fn run_one(sc: serde_json::Value) -> serde_json::Value {
    use shuttle::scheduler::{PctScheduler, RandomScheduler};
    use shuttle::{Config, FailurePersistence, MaxSteps, Runner};

    EVENTS.lock().unwrap().clear();
    EVENT_NO.store(0, Ordering::SeqCst);
    shim::TIMER_FIRED.store(0, Ordering::SeqCst);
    shim::SLEEPS.store(0, Ordering::SeqCst);
    shim::SPAWNS.store(0, Ordering::SeqCst);
    shim::VIRTUAL_NANOS.store(0, Ordering::SeqCst);
    CODEC_INTERRUPTED.store(0, Ordering::SeqCst);
    CODEC_SHORT_WRITES.store(0, Ordering::SeqCst);
    CODEC_SHORT_READS.store(0, Ordering::SeqCst);
    COALESCED_READS.store(0, Ordering::SeqCst);
    shim::TIMER_FIRE_PERMILLE.store(
        sc["timer_permille"].as_u64().unwrap_or(300) as usize,
        Ordering::SeqCst,
    );
    STEP_BUDGET.store(
        sc["step_budget"].as_u64().unwrap_or(100_000) as usize,
        Ordering::SeqCst,
    );

    let mut cfg = Config::new();
    cfg.stack_size = 8 * 1024 * 1024;
    cfg.max_steps = MaxSteps::FailAfter(sc["max_steps"].as_u64().unwrap_or(3_000_000) as usize);
    cfg.failure_persistence = FailurePersistence::None;
    cfg.silence_warnings = true;

    let seed = sc["sched"]["seed"].as_u64().unwrap_or(1);
    let kind = sc["sched"]["kind"].as_str().unwrap_or("random").to_owned();
    USE_SWITCH.store(kind == "pct", Ordering::SeqCst);
    let sc_arc = Arc::new(sc.clone());

    let res = std::panic::catch_unwind(std::panic::AssertUnwindSafe(|| {
        let sc2 = Arc::clone(&sc_arc);
        if kind == "pct" {
            let depth = sc["sched"]["depth"].as_u64().unwrap_or(3) as usize;
            Runner::new(PctScheduler::new_from_seed(seed, depth, 1), cfg)
                .run(move || scenario(&sc2));
        } else {
            Runner::new(RandomScheduler::new_from_seed(seed, 1), cfg).run(move || scenario(&sc2));
        }
    }));
    let outcome = match res {
        Ok(()) => "ok".to_owned(),
        Err(p) => {
            let msg = if let Some(s) = p.downcast_ref::<&str>() {
                (*s).to_owned()
            } else if let Some(s) = p.downcast_ref::<String>() {
                s.clone()
            } else {
                util::take_last_panic().unwrap_or_else(|| "panic".to_owned())
            };
            let first = util::take_last_panic();
            format!("panic: {} || first: {}", msg, first.unwrap_or_default())
        }
    };
    let events = std::mem::take(&mut *EVENTS.lock().unwrap());
    serde_json::json!({
        "id": sc["id"].clone(),
        "outcome": outcome,
        "events": events,
        "timers_fired": shim::TIMER_FIRED.load(Ordering::SeqCst),
        "sleeps": shim::SLEEPS.load(Ordering::SeqCst),
        "spawns": shim::SPAWNS.load(Ordering::SeqCst),
        "virtual_ms": shim::VIRTUAL_NANOS.load(Ordering::SeqCst) / 1_000_000,
        "codec_interrupted": CODEC_INTERRUPTED.load(Ordering::SeqCst),
        "codec_short_writes": CODEC_SHORT_WRITES.load(Ordering::SeqCst),
        "codec_short_reads": CODEC_SHORT_READS.load(Ordering::SeqCst),
        "coalesced_reads": COALESCED_READS.load(Ordering::SeqCst),
    })
}

pub(crate) fn serve(_args: &[String]) -> i32 {
    // Keep the FIRST panic message of an iteration (shuttle re-panics with its own).
    std::panic::set_hook(Box::new(|info| {
        let msg = if let Some(s) = info.payload().downcast_ref::<&str>() {
            (*s).to_owned()
        } else if let Some(s) = info.payload().downcast_ref::<String>() {
            s.clone()
        } else {
            "<non-string panic payload>".to_owned()
        };
        let loc = info
            .location()
            .map(|l| format!("{}:{}", l.file(), l.line()))
            .unwrap_or_default();
        util::LAST_PANIC.with(|p| {
            let mut p = p.borrow_mut();
            if p.is_none() {
                *p = Some(format!("{msg} @ {loc}"));
            }
        });
    }));
    let stdin = std::io::stdin();
    let stdout = std::io::stdout();
    for line in stdin.lock().lines() {
        let Ok(line) = line else { break };
        if line.trim().is_empty() {
            continue;
        }
        let _ = util::take_last_panic();
        let res = match serde_json::from_str::<serde_json::Value>(&line) {
            Ok(sc) => run_one(sc),
            Err(e) => serde_json::json!({"harness_error": e.to_string()}),
        };
        let mut o = stdout.lock();
        let _ = writeln!(o, "\n@@VERIF-RESULT@@{}", res);
        let _ = o.flush();
    }
    0
}
