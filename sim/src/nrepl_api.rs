//! threadsim stub (filled in later)
use super::*;
pub(crate) fn on_step(_env: &mut Env, _session: &Session, _st: &crate::eval::ExpressionState, _e: &Rc<crate::parser::ast::Expression>) {}
pub(crate) fn on_worker_reset(_flag: &Arc<AtomicBool>) {}
pub(crate) fn on_watchdog_store(_flag: &Arc<AtomicBool>) {}
pub(crate) fn serve(_args: &[String]) -> i32 { 2 }
