//! threadsim: the real nREPL server threads under the seeded shuttle scheduler.
//!
//! Compiled as a child module of /repo/src/nrepl.rs (hook H4), so `super::`
//! reaches `Connection`, `handle_message`, `sigint_watchdog`, `read_message`,
//! `write_message` ...  Through hook H4 the server's `thread` and `mpsc` are
//! the shim types of /verif/sim/src/shim.rs, so every spawn, send, receive,
//! join, sleep and timer expiry is a decision of the seeded scheduler, and hook
//! H2 makes every evaluation step (where the evaluator reads the shared
//! interrupt flag) a scheduling point.
//!
//! Real code: Connection, handle_message, dispatch_to_session, session_worker,
//! handle_eval / eval_code_in_namespace, spawn_output_flusher,
//! flush_output_buffer, sigint_watchdog, read_message, write_message, the
//! whole evaluator.  Re-enacted here (stubs): the accept loop, the 15-line
//! read/dispatch/shutdown loop of serve_connection and the 3-line loop of
//! writer_thread, because their signatures name TcpStream.
//!
//! Generic executor: one scenario (JSON) per stdin line, one result per line.

use super::*;
use crate::verif_sim::shim;
use crate::verif_sim::util;
use std::io::{BufRead, Write as IoWrite};
use std::sync::atomic::{AtomicU64, AtomicUsize};

static EVENTS: Mutex<Vec<serde_json::Value>> = Mutex::new(Vec::new());
static EVENT_NO: AtomicU64 = AtomicU64::new(0);
static USE_SWITCH: AtomicBool = AtomicBool::new(false);
static STEP_BUDGET: AtomicUsize = AtomicUsize::new(100_000);
static CODEC_INTERRUPTED: AtomicU64 = AtomicU64::new(0);
static CODEC_SHORT_WRITES: AtomicU64 = AtomicU64::new(0);

fn log_event(mut v: serde_json::Value) {
    let n = EVENT_NO.fetch_add(1, Ordering::SeqCst) + 1;
    v["n"] = serde_json::json!(n);
    EVENTS.lock().unwrap().push(v);
}

fn thread_name() -> String {
    shuttle::thread::current()
        .name()
        .map(|s| s.to_owned())
        .unwrap_or_else(|| "main".to_owned())
}

fn sched_point() {
    if USE_SWITCH.load(Ordering::Relaxed) {
        shuttle::thread::sleep(Duration::ZERO);
    } else {
        shuttle::thread::yield_now();
    }
}

/// Hook H2 in threadsim mode: a scheduling point, then the record of what
/// the evaluator is about to read.
pub(crate) fn on_step(
    env: &mut Env,
    session: &Session,
    _st: &crate::eval::ExpressionState,
    _e: &Rc<crate::parser::ast::Expression>,
) {
    sched_point();
    // No scheduling point separates this record from the evaluator's own load.
    let flag = session.interrupted.load(Ordering::SeqCst);
    log_event(serde_json::json!({
        "k": "C", "thread": thread_name(), "tick": env.ticks, "flag": flag,
        "ptr": format!("{:p}", Arc::as_ptr(&session.interrupted)),
    }));
    if env.ticks > STEP_BUDGET.load(Ordering::Relaxed) {
        // Harness safety net only: generated programs are finite.
        log_event(serde_json::json!({"k": "BUDGET", "thread": thread_name()}));
        session.interrupted.store(true, Ordering::SeqCst);
    }
}

pub(crate) fn on_worker_reset(flag: &Arc<AtomicBool>) {
    // Immediately after the worker's `interrupted.store(false)`; no scheduling
    // point in between.
    log_event(serde_json::json!({
        "k": "R", "thread": thread_name(), "ptr": format!("{:p}", Arc::as_ptr(flag)),
    }));
}

pub(crate) fn on_watchdog_store(flag: &Arc<AtomicBool>) {
    log_event(serde_json::json!({
        "k": "I", "src": "watchdog", "thread": thread_name(), "ptr": format!("{:p}", Arc::as_ptr(flag)),
    }));
}

// ---------------------------------------------------------------------
// fault-injecting transport
// ---------------------------------------------------------------------

/// The client->server byte stream.  `read_message` reads one byte at a time;
/// each read may first fail with `Interrupted` (decided by shuttle::rand, so
/// part of the replayable schedule), and the stream may end in the middle of a
/// message (client crash).
struct FaultyReader {
    data: std::collections::VecDeque<u8>,
    interrupted_permille: u32,
}

impl Read for FaultyReader {
    fn read(&mut self, buf: &mut [u8]) -> io::Result<usize> {
        use shuttle::rand::Rng;
        if self.interrupted_permille > 0
            && shuttle::rand::thread_rng().gen_range(0u32..1000) < self.interrupted_permille
        {
            CODEC_INTERRUPTED.fetch_add(1, Ordering::Relaxed);
            return Err(io::Error::new(io::ErrorKind::Interrupted, "simulated EINTR"));
        }
        if buf.is_empty() {
            return Ok(0);
        }
        match self.data.pop_front() {
            Some(b) => {
                buf[0] = b;
                Ok(1)
            }
            None => Ok(0),
        }
    }
}

/// The server->client byte stream: short writes and `Interrupted`.
struct FaultyWriter {
    out: Vec<u8>,
    short_permille: u32,
    interrupted_permille: u32,
}

impl std::io::Write for FaultyWriter {
    fn write(&mut self, buf: &[u8]) -> io::Result<usize> {
        use shuttle::rand::Rng;
        let mut rng = shuttle::rand::thread_rng();
        if self.interrupted_permille > 0 && rng.gen_range(0u32..1000) < self.interrupted_permille {
            CODEC_INTERRUPTED.fetch_add(1, Ordering::Relaxed);
            return Err(io::Error::new(io::ErrorKind::Interrupted, "simulated EINTR"));
        }
        let mut n = buf.len();
        if n > 1 && self.short_permille > 0 && rng.gen_range(0u32..1000) < self.short_permille {
            n = rng.gen_range(1..n);
            CODEC_SHORT_WRITES.fetch_add(1, Ordering::Relaxed);
        }
        self.out.extend_from_slice(&buf[..n]);
        Ok(n)
    }
    fn flush(&mut self) -> io::Result<()> {
        Ok(())
    }
}

// ---------------------------------------------------------------------
// the scenario
// ---------------------------------------------------------------------

fn scenario(sc: &serde_json::Value) {
    let codec = &sc["codec"];
    let rd_int = codec["read_interrupted_permille"].as_u64().unwrap_or(0) as u32;
    let wr_int = codec["write_interrupted_permille"].as_u64().unwrap_or(0) as u32;
    let wr_short = codec["write_short_permille"].as_u64().unwrap_or(0) as u32;
    let eof_mid = codec["eof_mid_message"].as_bool().unwrap_or(false);
    let drop_rx_after = sc["drop_receiver_after"].as_u64();
    let want_watchdog = sc["watchdog"].as_bool().unwrap_or(false);

    // --- what serve_connection sets up ---
    let (response_tx, response_rx) = mpsc::channel::<Value>();

    // writer thread (re-enactment of writer_thread's loop over the channel)
    let writer_handle = thread::Builder::new()
        .name("nrepl-writer".to_owned())
        .spawn(move || {
            let mut w = FaultyWriter {
                out: vec![],
                short_permille: wr_short,
                interrupted_permille: wr_int,
            };
            let mut decoded_upto = 0usize;
            let mut n_msgs = 0u64;
            while let Ok(mut value) = response_rx.recv() {
                // `eval-msec` is the one field that reads the real clock; its digits
                // would change the byte count and with it the number of codec draws.
                if let Value::Dict(d) = &mut value {
                    if let Some(v) = d.get_mut(b"eval-msec".as_slice()) {
                        *v = Value::Int(0);
                    }
                }
                if let Err(e) = write_message(&mut w, &value) {
                    log_event(serde_json::json!({"k": "WRITE-ERROR", "err": e.to_string()}));
                    return;
                }
                // the client decodes whatever complete messages have arrived
                loop {
                    let mut cur = std::io::Cursor::new(&w.out[decoded_upto..]);
                    match read_message(&mut cur) {
                        Ok(Some(v)) => {
                            decoded_upto += cur.position() as usize;
                            log_event(serde_json::json!({"k": "WIRE", "msg": bencode_to_json(&v)}));
                        }
                        _ => break,
                    }
                }
                n_msgs += 1;
                if let Some(lim) = drop_rx_after {
                    if n_msgs >= lim {
                        // the writer dies (socket error): the receiver is dropped
                        log_event(serde_json::json!({"k": "WRITER-DIED"}));
                        return;
                    }
                }
            }
            if decoded_upto != w.out.len() {
                log_event(serde_json::json!({"k": "WIRE-TRAILING-BYTES", "n": w.out.len() - decoded_upto}));
            }
        })
        .expect("spawn writer");

    let mut conn = Connection::new(response_tx);

    let global_interrupted = Arc::new(AtomicBool::new(false));
    if want_watchdog {
        let watchdog_flags = Arc::downgrade(&conn.interrupt_flags);
        let g = Arc::clone(&global_interrupted);
        thread::Builder::new()
            .name("nrepl-sigint-watchdog".to_owned())
            .spawn(move || sigint_watchdog(g, watchdog_flags))
            .expect("spawn watchdog");
    }

    // --- the read/dispatch loop of serve_connection, fed by the simulated client ---
    let mut reader = FaultyReader {
        data: Default::default(),
        interrupted_permille: rd_int,
    };
    let empty = vec![];
    let ops = sc["ops"].as_array().unwrap_or(&empty);
    let n_ops = ops.len();
    'ops: for (oi, op) in ops.iter().enumerate() {
        for _ in 0..op["yields"].as_u64().unwrap_or(0) {
            sched_point();
        }
        match op["op"].as_str().unwrap_or("") {
            "msg" => {
                let Value::Dict(d) = json_to_bencode(op["fields"].clone()) else {
                    continue;
                };
                let mut bytes: Vec<u8> = vec![];
                write_message(&mut bytes, &Value::Dict(d)).expect("encode request");
                if eof_mid && oi + 1 == n_ops && bytes.len() > 2 {
                    // client crash in the middle of its last message
                    bytes.truncate(bytes.len() / 2);
                }
                reader.data.extend(bytes);
                let request = match read_message(&mut reader) {
                    Ok(Some(Value::Dict(d))) => d,
                    Ok(Some(_)) => continue,
                    Ok(None) => break 'ops,
                    Err(e) => {
                        log_event(serde_json::json!({"k": "READ-ERROR", "err": e.to_string()}));
                        break 'ops;
                    }
                };
                // (only a request that arrived completely counts as delivered)
                log_event(serde_json::json!({"k": "REQ", "op_index": oi, "fields": op["fields"].clone()}));
                // Flag-write events of calls the simulator itself makes are logged
                // here: no scheduling point separates the log from the store.
                let opname = dict_get(&request, "op").and_then(as_str).unwrap_or("");
                if opname == "interrupt" || opname == "close" {
                    if let Some(s) = dict_get(&request, "session").and_then(as_str) {
                        if let Some(st) = conn.sessions.get(s) {
                            log_event(serde_json::json!({
                                "k": "I", "src": opname, "session": s,
                                "ptr": format!("{:p}", Arc::as_ptr(&st.interrupted)),
                            }));
                        }
                    }
                }
                handle_message(&mut conn, &request);
                // registry: session id -> flag address
                for (id, st) in conn.sessions.iter() {
                    log_event(serde_json::json!({
                        "k": "SESSION", "session": id, "ptr": format!("{:p}", Arc::as_ptr(&st.interrupted)),
                    }));
                }
            }
            "sigint" => {
                log_event(serde_json::json!({"k": "SIGINT"}));
                global_interrupted.store(true, Ordering::SeqCst);
            }
            "yield" => {}
            "disconnect" => break 'ops,
            _ => {}
        }
    }

    // --- the shutdown sequence of serve_connection ---
    let mut ids: Vec<&String> = conn.sessions.keys().collect();
    ids.sort();
    for id in ids {
        let s = &conn.sessions[id];
        log_event(serde_json::json!({
            "k": "I", "src": "disconnect", "session": id,
            "ptr": format!("{:p}", Arc::as_ptr(&s.interrupted)),
        }));
        s.interrupted.store(true, Ordering::SeqCst);
    }
    log_event(serde_json::json!({"k": "CONN-DROPPED"}));
    drop(conn);
    let _ = writer_handle.join();
    log_event(serde_json::json!({"k": "WRITER-JOINED"}));
}

fn run_one(sc: serde_json::Value) -> serde_json::Value {
    use shuttle::scheduler::{PctScheduler, RandomScheduler};
    use shuttle::{Config, FailurePersistence, MaxSteps, Runner};

    EVENTS.lock().unwrap().clear();
    EVENT_NO.store(0, Ordering::SeqCst);
    shim::TIMER_FIRED.store(0, Ordering::SeqCst);
    shim::SLEEPS.store(0, Ordering::SeqCst);
    shim::SPAWNS.store(0, Ordering::SeqCst);
    shim::VIRTUAL_NANOS.store(0, Ordering::SeqCst);
    CODEC_INTERRUPTED.store(0, Ordering::SeqCst);
    CODEC_SHORT_WRITES.store(0, Ordering::SeqCst);
    shim::TIMER_FIRE_PERMILLE.store(
        sc["timer_permille"].as_u64().unwrap_or(300) as usize,
        Ordering::SeqCst,
    );
    STEP_BUDGET.store(
        sc["step_budget"].as_u64().unwrap_or(100_000) as usize,
        Ordering::SeqCst,
    );

    let mut cfg = Config::new();
    cfg.stack_size = 8 * 1024 * 1024;
    cfg.max_steps = MaxSteps::FailAfter(sc["max_steps"].as_u64().unwrap_or(3_000_000) as usize);
    cfg.failure_persistence = FailurePersistence::None;
    cfg.silence_warnings = true;

    let seed = sc["sched"]["seed"].as_u64().unwrap_or(1);
    let kind = sc["sched"]["kind"].as_str().unwrap_or("random").to_owned();
    USE_SWITCH.store(kind == "pct", Ordering::SeqCst);
    let sc_arc = Arc::new(sc.clone());

    let res = std::panic::catch_unwind(std::panic::AssertUnwindSafe(|| {
        let sc2 = Arc::clone(&sc_arc);
        if kind == "pct" {
            let depth = sc["sched"]["depth"].as_u64().unwrap_or(3) as usize;
            Runner::new(PctScheduler::new_from_seed(seed, depth, 1), cfg)
                .run(move || scenario(&sc2));
        } else {
            Runner::new(RandomScheduler::new_from_seed(seed, 1), cfg).run(move || scenario(&sc2));
        }
    }));
    let outcome = match res {
        Ok(()) => "ok".to_owned(),
        Err(p) => {
            let msg = if let Some(s) = p.downcast_ref::<&str>() {
                (*s).to_owned()
            } else if let Some(s) = p.downcast_ref::<String>() {
                s.clone()
            } else {
                util::take_last_panic().unwrap_or_else(|| "panic".to_owned())
            };
            let first = util::take_last_panic();
            format!("panic: {} || first: {}", msg, first.unwrap_or_default())
        }
    };
    let events = std::mem::take(&mut *EVENTS.lock().unwrap());
    serde_json::json!({
        "id": sc["id"].clone(),
        "outcome": outcome,
        "events": events,
        "timers_fired": shim::TIMER_FIRED.load(Ordering::SeqCst),
        "sleeps": shim::SLEEPS.load(Ordering::SeqCst),
        "spawns": shim::SPAWNS.load(Ordering::SeqCst),
        "virtual_ms": shim::VIRTUAL_NANOS.load(Ordering::SeqCst) / 1_000_000,
        "codec_interrupted": CODEC_INTERRUPTED.load(Ordering::SeqCst),
        "codec_short_writes": CODEC_SHORT_WRITES.load(Ordering::SeqCst),
    })
}

pub(crate) fn serve(_args: &[String]) -> i32 {
    // Keep the FIRST panic message of an iteration (shuttle re-panics with its own).
    std::panic::set_hook(Box::new(|info| {
        let msg = if let Some(s) = info.payload().downcast_ref::<&str>() {
            (*s).to_owned()
        } else if let Some(s) = info.payload().downcast_ref::<String>() {
            s.clone()
        } else {
            "<non-string panic payload>".to_owned()
        };
        let loc = info
            .location()
            .map(|l| format!("{}:{}", l.file(), l.line()))
            .unwrap_or_default();
        util::LAST_PANIC.with(|p| {
            let mut p = p.borrow_mut();
            if p.is_none() {
                *p = Some(format!("{msg} @ {loc}"));
            }
        });
    }));
    let stdin = std::io::stdin();
    let stdout = std::io::stdout();
    for line in stdin.lock().lines() {
        let Ok(line) = line else { break };
        if line.trim().is_empty() {
            continue;
        }
        let _ = util::take_last_panic();
        let res = match serde_json::from_str::<serde_json::Value>(&line) {
            Ok(sc) => run_one(sc),
            Err(e) => serde_json::json!({"harness_error": e.to_string()}),
        };
        let mut o = stdout.lock();
        let _ = writeln!(o, "\n@@VERIF-RESULT@@{}", res);
        let _ = o.flush();
    }
    0
}
