//! sessim: the JSON session under a step-indexed fault injector.
//!
//! This file is compiled as a *child module* of /repo/src/json_session.rs
//! (hook H3), so `super::` reaches the private request handlers.  It plays
//! both threads of `json_session`:
//!   * the reader thread  = the real `handle_request`
//!   * the eval thread    = the real `handle_request_in_worker`, called for
//!     each string received from the real channel, in order.
//! Only `std::thread::spawn` and the blocking `recv()` loop of `eval_worker`
//! are replaced by the simulator's own sequencing.
//!
//! It is a generic *executor*: it reads one scenario (JSON) per line from
//! stdin, runs it in a fresh session, and prints one result (JSON) per line.
//! Workload generation, fault planning and the oracles live in the
//! controller (/verif/harness), so that the code compiled against /repo's
//! internals stays small.

use super::*;
use crate::verif_sim::util;
use crate::verif_sim::{PlannedFault, SessimCtx, SESSIM};
use std::io::{BufRead, Write};

struct SimSession {
    env: Env,
    session: Session,
    flag: Arc<AtomicBool>,
    tx: Sender<String>,
    rx: Receiver<String>,
    dead: bool,
}

impl SimSession {
    fn new(tick_limit: Option<usize>) -> Self {
        let flag = Arc::new(AtomicBool::new(false));
        let (tx, rx) = channel::<String>();
        // Exactly what `json_session()` builds.
        let session = Session {
            interrupted: Arc::clone(&flag),
            stdout_stderr_mode: StdoutStderrMode::WriteJson(StdoutJsonFormat::ReplSession),
            start_time: Instant::now(),
            trace_exprs: false,
            pretty_print_json: false,
        };
        // Exactly what `eval_worker()` builds.
        let mut env = Env::new(IdGenerator::default(), Vfs::default());
        if tick_limit.is_some() {
            env.tick_limit = tick_limit;
        }
        SimSession {
            env,
            session,
            flag,
            tx,
            rx,
            dead: false,
        }
    }

    /// The reader thread handles one request line.
    fn reader(&self, raw: &str) {
        handle_request(raw, false, Arc::clone(&self.flag), self.tx.clone());
    }

    /// The eval thread drains its queue.  Returns the panic message if the
    /// thread died.
    fn drain_worker(&mut self) -> Option<String> {
        while let Ok(r) = self.rx.try_recv() {
            if self.dead {
                continue;
            }
            let env = &mut self.env;
            let session = &mut self.session;
            let res = std::panic::catch_unwind(std::panic::AssertUnwindSafe(|| {
                handle_request_in_worker(&r, env, session);
            }));
            if res.is_err() {
                self.dead = true;
                return Some(util::take_last_panic().unwrap_or_else(|| "panic".to_owned()));
            }
        }
        None
    }
}

fn parse_faults(v: &serde_json::Value) -> Vec<PlannedFault> {
    let mut out = vec![];
    if let Some(arr) = v.as_array() {
        for f in arr {
            out.push(PlannedFault {
                at: f["at"].as_u64().unwrap_or(0) as usize,
                kind: f["kind"].as_str().unwrap_or("interrupt").to_owned(),
            });
        }
    }
    out
}

/// Is the last non-`printed` response of this round a stop-by-interrupt?
fn stopped_by_interrupt(lines: &[(u64, &'static str, String)]) -> bool {
    for (_, src, l) in lines.iter().rev() {
        if *src != "worker" {
            continue;
        }
        let Ok(v) = serde_json::from_str::<serde_json::Value>(l) else {
            return false;
        };
        let k = &v["kind"];
        if k.get("printed").is_some() || k.get("printed_stderr").is_some() {
            continue;
        }
        if k.get("interrupted").is_some() {
            return true;
        }
        if let Some(e) = k.get("evaluate") {
            if let Some(errs) = e["value"].get("Err") {
                return errs[0]["message"] == "Interrupted";
            }
        }
        return false;
    }
    false
}

fn run_scenario(sc: &serde_json::Value) -> serde_json::Value {
    let budget = sc["step_budget"].as_u64().unwrap_or(200_000) as usize;
    let want_trace = sc["want_trace"].as_bool().unwrap_or(false);
    let tick_limit = sc["tick_limit"].as_u64().map(|v| v as usize);
    let mut s = SimSession::new(tick_limit);

    let flag_for_deliver = Arc::clone(&s.flag);
    let tx_for_deliver = s.tx.clone();
    let deliver: Rc<dyn Fn(&str)> = Rc::new(move |raw: &str| {
        handle_request(
            raw,
            false,
            Arc::clone(&flag_for_deliver),
            tx_for_deliver.clone(),
        );
    });

    SESSIM.with(|c| {
        *c.borrow_mut() = Some(SessimCtx {
            captured: vec![],
            event_no: 0,
            in_reader: false,
            step: 0,
            plan: vec![],
            trace_on: false,
            want_trace,
            trace_hash: util::FNV_OFFSET,
            trace_len: 0,
            round_hash: util::FNV_OFFSET,
            round_first: None,
            trace: vec![],
            fired: vec![],
            budget,
            budget_exceeded: false,
            deliver: Some(deliver),
            raw_flag: Some(Arc::clone(&s.flag)),
            pending_mid: false,
        })
    });

    let mut out_steps: Vec<serde_json::Value> = vec![];
    let empty = vec![];
    let steps = sc["steps"].as_array().unwrap_or(&empty);

    // One "round" = the reader handles `raws`, then the worker drains.
    let round = |s: &mut SimSession,
                     raws: &[String],
                     faults: Vec<PlannedFault>,
                     trace_on: bool,
                     idle_reader_only: bool|
     -> serde_json::Value {
        SESSIM.with(|c| {
            let mut b = c.borrow_mut();
            let ctx = b.as_mut().unwrap();
            ctx.captured.clear();
            ctx.step = 0;
            ctx.plan = faults;
            ctx.trace_on = trace_on;
            ctx.fired.clear();
            ctx.budget_exceeded = false;
            ctx.round_hash = util::FNV_OFFSET;
            ctx.round_first = None;
            ctx.in_reader = true;
        });
        let mut panic_msg: Option<String> = None;
        let reader_res = std::panic::catch_unwind(std::panic::AssertUnwindSafe(|| {
            for r in raws {
                s.reader(r);
            }
        }));
        if reader_res.is_err() {
            panic_msg = Some(format!(
                "reader: {}",
                util::take_last_panic().unwrap_or_default()
            ));
        }
        SESSIM.with(|c| c.borrow_mut().as_mut().unwrap().in_reader = false);
        if !idle_reader_only && panic_msg.is_none() {
            panic_msg = s.drain_worker();
        }
        SESSIM.with(|c| {
            let mut b = c.borrow_mut();
            let ctx = b.as_mut().unwrap();
            let events: Vec<serde_json::Value> = ctx
                .captured
                .iter()
                .map(|(n, src, l)| {
                    let parsed: serde_json::Value = serde_json::from_str(l)
                        .unwrap_or_else(|_| serde_json::Value::String(l.clone()));
                    serde_json::json!({"n": n, "src": src, "line": parsed})
                })
                .collect();
            let fired: Vec<serde_json::Value> = ctx
                .fired
                .iter()
                .map(|(k, st, state, ek, depth)| {
                    serde_json::json!({"kind": k, "at": st, "state": state, "expr": ek, "depth": depth})
                })
                .collect();
            serde_json::json!({
                "events": events,
                "steps": ctx.step,
                "round_hash": format!("{:016x}", ctx.round_hash),
                "first_step": ctx.round_first.clone(),
                "fired": fired,
                "panic": panic_msg,
                "budget_exceeded": ctx.budget_exceeded,
                "flag_after": s.flag.load(std::sync::atomic::Ordering::SeqCst),
                "dead": s.dead,
                "stopped_by_interrupt": stopped_by_interrupt(&ctx.captured),
            })
        })
    };

    for st in steps {
        let op = st["op"].as_str().unwrap_or("send");
        let trace_on = st["trace"].as_bool().unwrap_or(false);
        match op {
            "send" => {
                let raw = st["raw"].as_str().unwrap_or("").to_owned();
                let r = round(&mut s, &[raw], parse_faults(&st["faults"]), trace_on, false);
                out_steps.push(serde_json::json!({"op": "send", "rounds": [r]}));
            }
            "burst" => {
                let raws: Vec<String> = st["raws"]
                    .as_array()
                    .map(|a| {
                        a.iter()
                            .map(|x| x.as_str().unwrap_or("").to_owned())
                            .collect()
                    })
                    .unwrap_or_default();
                let r = round(&mut s, &raws, parse_faults(&st["faults"]), trace_on, false);
                out_steps.push(serde_json::json!({"op": "burst", "rounds": [r]}));
            }
            "idle_interrupt" => {
                // The reader handles an interrupt while the worker is idle.
                let r = round(
                    &mut s,
                    &["{\"method\":\"interrupt\"}".to_owned()],
                    vec![],
                    false,
                    true,
                );
                out_steps.push(serde_json::json!({"op": "idle_interrupt", "rounds": [r]}));
            }
            "resume_loop" => {
                // While the previous round was stopped by an interrupt, send
                // `raw` (a `:resume` request) again, each time with `faults`.
                let raw = st["raw"].as_str().unwrap_or("").to_owned();
                let max = st["max"].as_u64().unwrap_or(10_000) as usize;
                let mut rounds = vec![];
                let mut last_stopped = out_steps
                    .last()
                    .and_then(|o| o["rounds"].as_array())
                    .and_then(|r| r.last())
                    .map(|r| r["stopped_by_interrupt"] == true)
                    .unwrap_or(false);
                while last_stopped && rounds.len() < max && !s.dead {
                    // `faults_by_round[i]` (if given) plans round i; otherwise
                    // every round gets `faults`.
                    let faults = match st["faults_by_round"].as_array() {
                        Some(per) => per
                            .get(rounds.len())
                            .map(parse_faults)
                            .unwrap_or_default(),
                        None => parse_faults(&st["faults"]),
                    };
                    let r = round(
                        &mut s,
                        std::slice::from_ref(&raw),
                        faults,
                        trace_on,
                        false,
                    );
                    last_stopped = r["stopped_by_interrupt"] == true;
                    rounds.push(r);
                }
                out_steps.push(serde_json::json!({"op": "resume_loop", "rounds": rounds, "exhausted": last_stopped}));
            }
            _ => {
                out_steps.push(serde_json::json!({"op": op, "error": "unknown op"}));
            }
        }
        if s.dead {
            break;
        }
    }

    let (trace_hash, trace_len, trace) = SESSIM.with(|c| {
        let mut b = c.borrow_mut();
        let ctx = b.as_mut().unwrap();
        (
            ctx.trace_hash,
            ctx.trace_len,
            std::mem::take(&mut ctx.trace),
        )
    });
    SESSIM.with(|c| *c.borrow_mut() = None);

    let mut res = serde_json::json!({
        "id": sc["id"].clone(),
        "steps": out_steps,
        "dead": s.dead,
        "trace_hash": format!("{trace_hash:016x}"),
        "trace_len": trace_len,
        "ticks": s.env.ticks,
        "stack_depth": s.env.stack.0.len(),
    });
    if want_trace {
        res["trace"] = serde_json::json!(trace);
    }
    res
}

pub(crate) fn serve(args: &[String]) -> i32 {
    util::install_quiet_panic_hook();
    let stdout = std::io::stdout();
    // Scenarios arrive on the file descriptor named by `--fd N` when given: the process's real
    // stdin then belongs to the code under test (the controller closes it, so a program that
    // ends up calling `read_line()` sees EOF instead of eating the next scenario or deadlocking
    // on the stdin lock).
    let input: Box<dyn BufRead> = match args.iter().position(|a| a == "--fd").and_then(|i| args.get(i + 1)) {
        Some(n) => {
            use std::os::unix::io::FromRawFd;
            let fd: i32 = n.parse().expect("--fd takes a number");
            Box::new(std::io::BufReader::new(unsafe { std::fs::File::from_raw_fd(fd) }))
        }
        None => Box::new(std::io::BufReader::new(std::io::stdin())),
    };
    for line in input.lines() {
        let Ok(line) = line else { break };
        if line.trim().is_empty() {
            continue;
        }
        let sc: serde_json::Value = match serde_json::from_str(&line) {
            Ok(v) => v,
            Err(e) => {
                let mut o = stdout.lock();
                let _ = writeln!(o, "\n@@VERIF-RESULT@@{}", serde_json::json!({"harness_error": e.to_string()}));
                let _ = o.flush();
                continue;
            }
        };
        let res = run_scenario(&sc);
        let mut o = stdout.lock();
        // Anything the code under test prints straight to stdout (e.g. with
        // `:trace` on) is not a result line; results carry this marker.
        let _ = writeln!(o, "\n@@VERIF-RESULT@@{}", res);
        let _ = o.flush();
    }
    0
}
