//! Scheduler-owned replacements for `std::thread` and `std::sync::mpsc`, as
//! imported by /repo/src/nrepl.rs under cfg(wilfred_garden_verif) (hook H4).
//!
//! When the simulator is not in threadsim mode every call is forwarded to
//! std, so `garden-verif nrepl` / `garden-verif reftest-nrepl` behave exactly
//! like the shipped binary.  In threadsim mode every spawn, send, receive,
//! join and sleep is a scheduling decision of the seeded shuttle scheduler,
//! and timers are simulated: a `sleep` ends, and a `recv_timeout` on an empty
//! queue expires, whenever the scheduler (for sleep) or a draw from
//! `shuttle::rand` (for recv_timeout; part of the recorded schedule) says so.

use std::sync::atomic::{AtomicU64, AtomicUsize, Ordering};

use super::{MODE, MODE_SHUTTLE};

fn sim() -> bool {
    MODE.load(Ordering::Relaxed) == MODE_SHUTTLE
}

/// Probability (in 1/1000) that an armed timer expires at one poll.
pub(crate) static TIMER_FIRE_PERMILLE: AtomicUsize = AtomicUsize::new(300);
/// Counters reported in the evidence.
pub(crate) static TIMER_FIRED: AtomicU64 = AtomicU64::new(0);
pub(crate) static SLEEPS: AtomicU64 = AtomicU64::new(0);
pub(crate) static SPAWNS: AtomicU64 = AtomicU64::new(0);

pub(crate) mod thread {
    use super::*;
    use std::time::Duration;

    pub(crate) enum JoinHandle<T> {
        Std(std::thread::JoinHandle<T>),
        Sh(shuttle::thread::JoinHandle<T>),
    }

    impl<T> JoinHandle<T> {
        pub(crate) fn join(self) -> std::thread::Result<T> {
            match self {
                JoinHandle::Std(h) => h.join(),
                JoinHandle::Sh(h) => h.join(),
            }
        }
    }

    #[derive(Default)]
    pub(crate) struct Builder {
        name: Option<String>,
    }

    impl Builder {
        pub(crate) fn new() -> Self {
            Builder { name: None }
        }
        pub(crate) fn name(mut self, name: String) -> Self {
            self.name = Some(name);
            self
        }
        pub(crate) fn spawn<F, T>(self, f: F) -> std::io::Result<JoinHandle<T>>
        where
            F: FnOnce() -> T + Send + 'static,
            T: Send + 'static,
        {
            if sim() {
                SPAWNS.fetch_add(1, Ordering::Relaxed);
                let mut b = shuttle::thread::Builder::new();
                if let Some(n) = self.name {
                    b = b.name(n);
                }
                b.spawn(f).map(JoinHandle::Sh)
            } else {
                let mut b = std::thread::Builder::new();
                if let Some(n) = self.name {
                    b = b.name(n);
                }
                b.spawn(f).map(JoinHandle::Std)
            }
        }
    }

    #[allow(dead_code)]
    pub(crate) fn spawn<F, T>(f: F) -> JoinHandle<T>
    where
        F: FnOnce() -> T + Send + 'static,
        T: Send + 'static,
    {
        Builder::new().spawn(f).expect("spawn")
    }

    #[allow(dead_code)]
    pub(crate) fn yield_now() {
        if sim() {
            shuttle::thread::yield_now();
        } else {
            std::thread::yield_now()
        }
    }

    #[allow(dead_code)]
    impl<T> JoinHandle<T> {
        pub(crate) fn is_finished(&self) -> bool {
            match self {
                JoinHandle::Std(h) => h.is_finished(),
                // shuttle has no is_finished: a scheduling point, then "not yet"
                JoinHandle::Sh(_) => {
                    shuttle::thread::yield_now();
                    false
                }
            }
        }
    }

    /// Simulated: the sleep ends whenever the scheduler next runs this
    /// thread (a timer may fire between any two steps of any other thread).
    pub(crate) fn sleep(d: Duration) {
        if sim() {
            SLEEPS.fetch_add(1, Ordering::Relaxed);
            crate::verif_sim::shim::add_virtual_time(d);
            shuttle::thread::yield_now();
        } else {
            std::thread::sleep(d)
        }
    }
}

pub(crate) static VIRTUAL_NANOS: AtomicU64 = AtomicU64::new(0);

pub(crate) fn add_virtual_time(d: std::time::Duration) {
    VIRTUAL_NANOS.fetch_add(d.as_nanos() as u64, Ordering::Relaxed);
}

pub(crate) mod mpsc {
    use super::*;
    #[allow(unused_imports)]
    pub(crate) use std::sync::mpsc::{RecvError, RecvTimeoutError, SendError, TryRecvError};
    use std::time::Duration;

    pub(crate) enum Sender<T> {
        Std(std::sync::mpsc::Sender<T>),
        Sh(shuttle::sync::mpsc::Sender<T>),
    }

    impl<T> Clone for Sender<T> {
        fn clone(&self) -> Self {
            match self {
                Sender::Std(s) => Sender::Std(s.clone()),
                Sender::Sh(s) => Sender::Sh(s.clone()),
            }
        }
    }

    impl<T> Sender<T> {
        pub(crate) fn send(&self, t: T) -> Result<(), SendError<T>> {
            match self {
                Sender::Std(s) => s.send(t),
                Sender::Sh(s) => s.send(t),
            }
        }
    }

    pub(crate) enum Receiver<T> {
        Std(std::sync::mpsc::Receiver<T>),
        Sh(shuttle::sync::mpsc::Receiver<T>),
    }

    impl<T> Receiver<T> {
        pub(crate) fn recv(&self) -> Result<T, RecvError> {
            match self {
                Receiver::Std(r) => r.recv(),
                Receiver::Sh(r) => r.recv(),
            }
        }

        #[allow(dead_code)]
        pub(crate) fn try_recv(&self) -> Result<T, TryRecvError> {
            match self {
                Receiver::Std(r) => r.try_recv(),
                Receiver::Sh(r) => r.try_recv(),
            }
        }

        pub(crate) fn recv_timeout(&self, d: Duration) -> Result<T, RecvTimeoutError> {
            match self {
                Receiver::Std(r) => r.recv_timeout(d),
                Receiver::Sh(r) => {
                    use shuttle::rand::Rng;
                    loop {
                        match r.try_recv() {
                            Ok(v) => return Ok(v),
                            Err(TryRecvError::Disconnected) => {
                                return Err(RecvTimeoutError::Disconnected)
                            }
                            Err(TryRecvError::Empty) => {
                                let p = TIMER_FIRE_PERMILLE.load(Ordering::Relaxed) as u32;
                                if shuttle::rand::thread_rng().gen_range(0u32..1000) < p {
                                    TIMER_FIRED.fetch_add(1, Ordering::Relaxed);
                                    crate::verif_sim::shim::add_virtual_time(d);
                                    return Err(RecvTimeoutError::Timeout);
                                }
                                shuttle::thread::yield_now();
                            }
                        }
                    }
                }
            }
        }
    }

    #[allow(dead_code)]
    impl<T> Receiver<T> {
        /// Blocking iterator, as std's `Receiver::iter`.
        pub(crate) fn iter(&self) -> impl Iterator<Item = T> + '_ {
            std::iter::from_fn(move || self.recv().ok())
        }
        pub(crate) fn try_iter(&self) -> impl Iterator<Item = T> + '_ {
            std::iter::from_fn(move || self.try_recv().ok())
        }
    }

    pub(crate) fn channel<T>() -> (Sender<T>, Receiver<T>) {
        if sim() {
            let (tx, rx) = shuttle::sync::mpsc::channel();
            (Sender::Sh(tx), Receiver::Sh(rx))
        } else {
            let (tx, rx) = std::sync::mpsc::channel();
            (Sender::Std(tx), Receiver::Std(rx))
        }
    }
}

/// Scheduler-owned replacement for `std::net::{TcpListener, TcpStream}` as
/// imported by /repo/src/nrepl.rs under cfg(wilfred_garden_verif) (hook H5).
/// Outside the simulator both forward to std (so `garden-verif nrepl` serves
/// real sockets); inside it a `TcpStream` is an in-memory endpoint owned by the
/// simulator (blocking reads are scheduling points; faults are injected by the
/// endpoint implementation in nrepl_api.rs).
pub(crate) mod net {
    use std::io::{self, Read, Write};
    use std::net::SocketAddr;
    use std::sync::Arc;

    pub(crate) trait SimEndpoint: Send + Sync {
        fn read(&self, buf: &mut [u8]) -> io::Result<usize>;
        fn write(&self, buf: &[u8]) -> io::Result<usize>;
        fn flush(&self) -> io::Result<()>;
        fn shutdown(&self, _how: std::net::Shutdown) -> io::Result<()> {
            Ok(())
        }
    }

    pub(crate) enum TcpStream {
        Std(std::net::TcpStream),
        Sim(Arc<dyn SimEndpoint>),
    }

    impl TcpStream {
        pub(crate) fn peer_addr(&self) -> io::Result<SocketAddr> {
            match self {
                TcpStream::Std(s) => s.peer_addr(),
                TcpStream::Sim(_) => Ok(SocketAddr::from(([127, 0, 0, 1], 1))),
            }
        }
        pub(crate) fn try_clone(&self) -> io::Result<TcpStream> {
            match self {
                TcpStream::Std(s) => s.try_clone().map(TcpStream::Std),
                TcpStream::Sim(e) => Ok(TcpStream::Sim(Arc::clone(e))),
            }
        }
    }

    impl Read for TcpStream {
        fn read(&mut self, buf: &mut [u8]) -> io::Result<usize> {
            match self {
                TcpStream::Std(s) => s.read(buf),
                TcpStream::Sim(e) => e.read(buf),
            }
        }
    }

    impl Write for TcpStream {
        fn write(&mut self, buf: &[u8]) -> io::Result<usize> {
            match self {
                TcpStream::Std(s) => s.write(buf),
                TcpStream::Sim(e) => e.write(buf),
            }
        }
        fn flush(&mut self) -> io::Result<()> {
            match self {
                TcpStream::Std(s) => s.flush(),
                TcpStream::Sim(e) => e.flush(),
            }
        }
    }

    // std implements Read and Write for `&TcpStream` as well
    impl Read for &TcpStream {
        fn read(&mut self, buf: &mut [u8]) -> io::Result<usize> {
            match self {
                TcpStream::Std(s) => (&*s).read(buf),
                TcpStream::Sim(e) => e.read(buf),
            }
        }
    }

    impl Write for &TcpStream {
        fn write(&mut self, buf: &[u8]) -> io::Result<usize> {
            match self {
                TcpStream::Std(s) => (&*s).write(buf),
                TcpStream::Sim(e) => e.write(buf),
            }
        }
        fn flush(&mut self) -> io::Result<()> {
            match self {
                TcpStream::Std(s) => (&*s).flush(),
                TcpStream::Sim(e) => e.flush(),
            }
        }
    }

    // The rest of std::net::TcpStream's everyday surface, so that a changed tree
    // that uses it still builds with the guard on.  On a simulated endpoint the
    // socket options are accepted and ignored (time-outs: a simulated read never
    // times out; `shutdown` is reported to the endpoint).
    #[allow(dead_code)]
    impl TcpStream {
        pub(crate) fn connect<A: std::net::ToSocketAddrs>(addr: A) -> io::Result<TcpStream> {
            std::net::TcpStream::connect(addr).map(TcpStream::Std)
        }
        pub(crate) fn local_addr(&self) -> io::Result<SocketAddr> {
            match self {
                TcpStream::Std(s) => s.local_addr(),
                TcpStream::Sim(_) => Ok(SocketAddr::from(([127, 0, 0, 1], 2))),
            }
        }
        pub(crate) fn shutdown(&self, how: std::net::Shutdown) -> io::Result<()> {
            match self {
                TcpStream::Std(s) => s.shutdown(how),
                TcpStream::Sim(e) => e.shutdown(how),
            }
        }
        pub(crate) fn set_read_timeout(&self, d: Option<std::time::Duration>) -> io::Result<()> {
            match self {
                TcpStream::Std(s) => s.set_read_timeout(d),
                TcpStream::Sim(_) => Ok(()),
            }
        }
        pub(crate) fn set_write_timeout(&self, d: Option<std::time::Duration>) -> io::Result<()> {
            match self {
                TcpStream::Std(s) => s.set_write_timeout(d),
                TcpStream::Sim(_) => Ok(()),
            }
        }
        pub(crate) fn set_nodelay(&self, v: bool) -> io::Result<()> {
            match self {
                TcpStream::Std(s) => s.set_nodelay(v),
                TcpStream::Sim(_) => Ok(()),
            }
        }
        pub(crate) fn set_nonblocking(&self, v: bool) -> io::Result<()> {
            match self {
                TcpStream::Std(s) => s.set_nonblocking(v),
                TcpStream::Sim(_) => Ok(()),
            }
        }
    }

    /// Only ever a real listener: the accept loop (`run_nrepl`) is not run
    /// inside the simulator.
    pub(crate) struct TcpListener(std::net::TcpListener);

    impl TcpListener {
        pub(crate) fn bind(addr: &str) -> io::Result<TcpListener> {
            std::net::TcpListener::bind(addr).map(TcpListener)
        }
        pub(crate) fn local_addr(&self) -> io::Result<SocketAddr> {
            self.0.local_addr()
        }
        pub(crate) fn set_nonblocking(&self, nb: bool) -> io::Result<()> {
            self.0.set_nonblocking(nb)
        }
        pub(crate) fn accept(&self) -> io::Result<(TcpStream, SocketAddr)> {
            self.0.accept().map(|(s, a)| (TcpStream::Std(s), a))
        }
        #[allow(dead_code)]
        pub(crate) fn incoming(&self) -> impl Iterator<Item = io::Result<TcpStream>> + '_ {
            self.0.incoming().map(|r| r.map(TcpStream::Std))
        }
    }
}
