//! Root of the deterministic simulator that is compiled *into* the garden
//! crate when `--cfg wilfred_garden_verif` is set (hook H1 in
//! /repo/src/main.rs).  Nothing in here runs unless the binary is started
//! as `garden-verif verif-sim ...` or the environment variable
//! `VERIF_FAULTS` is set; otherwise every hook is one relaxed atomic load.
//!
//! Engines:
//!   * sessim    -> /verif/sim/src/json_api.rs  (child module of json_session)
//!   * threadsim -> /verif/sim/src/nrepl_api.rs (child module of nrepl)
//!   * envfaults -> this file (step-indexed faults for the real CLI)
#![allow(dead_code)]

use std::cell::RefCell;
use std::rc::Rc;
use std::sync::atomic::{AtomicBool, AtomicU8, AtomicUsize, Ordering};
use std::sync::Arc;

use crate::env::Env;
use crate::eval::{ExpressionState, Session};
use crate::parser::ast::Expression;

pub(crate) mod shim;
pub(crate) mod util;

pub(crate) const MODE_INERT: u8 = 0;
pub(crate) const MODE_SESSIM: u8 = 1;
pub(crate) const MODE_SHUTTLE: u8 = 2;
pub(crate) const MODE_ENV: u8 = 3;

pub(crate) static MODE: AtomicU8 = AtomicU8::new(MODE_INERT);

// ---------------------------------------------------------------------
// sessim context (one per OS thread; a simulated session is single-threaded)
// ---------------------------------------------------------------------

#[derive(Clone, Debug)]
pub(crate) struct PlannedFault {
    pub(crate) at: usize,
    /// "interrupt" | "double"
    pub(crate) kind: String,
}

pub(crate) struct SessimCtx {
    /// (global event number, "reader"|"worker", raw response line)
    pub(crate) captured: Vec<(u64, &'static str, String)>,
    pub(crate) event_no: u64,
    pub(crate) in_reader: bool,
    /// Steps seen by the hook during the current worker call.
    pub(crate) step: usize,
    pub(crate) plan: Vec<PlannedFault>,
    pub(crate) trace_on: bool,
    pub(crate) want_trace: bool,
    pub(crate) trace_hash: u64,
    pub(crate) trace_len: usize,
    /// Hash of the steps executed in the current round only (always on).
    pub(crate) round_hash: u64,
    /// Position and state of the first step executed in the current round.
    pub(crate) round_first: Option<(usize, usize, String)>,
    pub(crate) trace: Vec<(usize, usize, String)>,
    /// Description of each fault that actually landed: (kind, step, state, expr kind, stack depth)
    pub(crate) fired: Vec<(String, usize, String, String, usize)>,
    pub(crate) budget: usize,
    pub(crate) budget_exceeded: bool,
    /// The real reader-side handler, bound to this session's flag and channel.
    pub(crate) deliver: Option<Rc<dyn Fn(&str)>>,
    pub(crate) raw_flag: Option<Arc<AtomicBool>>,
    /// A mid-step interrupt is due at hook H2b of the current step.
    pub(crate) pending_mid: bool,
}

thread_local! {
    pub(crate) static SESSIM: RefCell<Option<SessimCtx>> = const { RefCell::new(None) };
}

/// Hook H3: capture a response line of an in-process simulated session.
pub(crate) fn capture_stdout(s: &str) -> bool {
    if MODE.load(Ordering::Relaxed) != MODE_SESSIM {
        return false;
    }
    SESSIM.with(|c| {
        if let Some(ctx) = c.borrow_mut().as_mut() {
            ctx.event_no += 1;
            let src = if ctx.in_reader { "reader" } else { "worker" };
            ctx.captured.push((ctx.event_no, src, s.to_owned()));
            true
        } else {
            false
        }
    })
}

/// First identifier of the Debug rendering of a value (e.g. the variant name),
/// without rendering the rest.
pub(crate) fn debug_head<T: std::fmt::Debug>(v: &T) -> String {
    struct Head(String);
    impl std::fmt::Write for Head {
        fn write_str(&mut self, s: &str) -> std::fmt::Result {
            for ch in s.chars() {
                if ch.is_alphanumeric() || ch == '_' {
                    self.0.push(ch);
                } else {
                    return Err(std::fmt::Error);
                }
            }
            Ok(())
        }
    }
    let mut h = Head(String::new());
    let _ = std::fmt::write(&mut h, format_args!("{:?}", v));
    h.0
}

/// Hook H2: called once per evaluation step, after `env.ticks += 1` and
/// before the evaluator reads the interrupt flag.
#[inline]
pub(crate) fn on_eval_step(
    env: &mut Env,
    session: &Session,
    expr_state: &ExpressionState,
    outer_expr: &Rc<Expression>,
) {
    match MODE.load(Ordering::Relaxed) {
        MODE_INERT => {}
        MODE_SESSIM => sessim_step(env, session, expr_state, outer_expr),
        MODE_SHUTTLE => crate::nrepl::verif_api::on_step(env, session, expr_state, outer_expr),
        MODE_ENV => env_step(env, session, expr_state, outer_expr),
        _ => {}
    }
}

/// Hook H2b: called once per evaluation step after the evaluator's interrupt
/// check (and limit checks), immediately before the step is executed.  This is
/// where the executed-step trace is recorded (a step that the check at the top
/// turned into an interrupt or a limit error never gets here) and where an
/// interrupt planned to arrive WHILE the step executes is delivered.
#[inline]
pub(crate) fn on_eval_step_started(
    _env: &mut Env,
    _session: &Session,
    expr_state: &ExpressionState,
    outer_expr: &Rc<Expression>,
) {
    if MODE.load(Ordering::Relaxed) != MODE_SESSIM {
        return;
    }
    let d = SESSIM.with(|c| {
        let mut b = c.borrow_mut();
        let ctx = b.as_mut()?;
        if !ctx.budget_exceeded {
            let st = format!("{:?}", expr_state);
            let mut h = ctx.round_hash;
            h = util::fnv_u64(h, outer_expr.position.start_offset as u64);
            h = util::fnv_u64(h, outer_expr.position.end_offset as u64);
            h = util::fnv_bytes(h, st.as_bytes());
            ctx.round_hash = h;
            if ctx.round_first.is_none() {
                ctx.round_first = Some((
                    outer_expr.position.start_offset,
                    outer_expr.position.end_offset,
                    format!("{}/{}", debug_head(&outer_expr.expr_), st),
                ));
            }
        }
        if ctx.trace_on && !ctx.budget_exceeded {
            let st = format!("{:?}", expr_state);
            let mut h = ctx.trace_hash;
            h = util::fnv_u64(h, outer_expr.position.start_offset as u64);
            h = util::fnv_u64(h, outer_expr.position.end_offset as u64);
            h = util::fnv_bytes(h, st.as_bytes());
            ctx.trace_hash = h;
            ctx.trace_len += 1;
            if ctx.want_trace {
                ctx.trace.push((
                    outer_expr.position.start_offset,
                    outer_expr.position.end_offset,
                    st,
                ));
            }
        }
        if !ctx.pending_mid {
            return None;
        }
        ctx.pending_mid = false;
        ctx.deliver.as_ref().map(Rc::clone)
    });
    if let Some(d) = d {
        SESSIM.with(|c| c.borrow_mut().as_mut().unwrap().in_reader = true);
        d("{\"method\":\"interrupt\"}");
        SESSIM.with(|c| c.borrow_mut().as_mut().unwrap().in_reader = false);
    }
}

fn sessim_step(
    env: &mut Env,
    _session: &Session,
    expr_state: &ExpressionState,
    outer_expr: &Rc<Expression>,
) {
    enum Act {
        None,
        Deliver(Rc<dyn Fn(&str)>, usize),
        Raw(Arc<AtomicBool>),
    }
    let act = SESSIM.with(|c| {
        let mut b = c.borrow_mut();
        let Some(ctx) = b.as_mut() else {
            return Act::None;
        };
        ctx.step += 1;
        let step = ctx.step;
        if ctx.step > ctx.budget {
            // Step budget of this round exhausted: abandon this evaluation (and
            // any further one in the same round) as a Ctrl-C would.
            ctx.budget_exceeded = true;
            if let Some(f) = &ctx.raw_flag {
                return Act::Raw(Arc::clone(f));
            }
        }
        let mut mid = false;
        if let Some(pf) = ctx.plan.iter().find(|pf| pf.at == step && pf.kind == "mid").cloned() {
            // The interrupt arrives WHILE this step executes: it is delivered from hook
            // H2b, after the evaluator's own check at the top of the step.
            ctx.fired.push((
                pf.kind.clone(),
                step,
                format!("{:?}", expr_state),
                debug_head(&outer_expr.expr_),
                env.stack.0.len(),
            ));
            ctx.pending_mid = true;
            mid = true;
        }
        if let Some(pf) = ctx.plan.iter().find(|pf| pf.at == step && !mid).cloned() {
            let n = if pf.kind == "double" { 2 } else { 1 };
            ctx.fired.push((
                pf.kind.clone(),
                step,
                format!("{:?}", expr_state),
                debug_head(&outer_expr.expr_),
                env.stack.0.len(),
            ));
            if let Some(d) = &ctx.deliver {
                return Act::Deliver(Rc::clone(d), n);
            }
            return Act::None;
        }
        Act::None
    });
    match act {
        Act::None => {}
        Act::Deliver(d, n) => {
            // The reader thread handles an `interrupt` request exactly here,
            // i.e. between two evaluation steps of the worker.
            SESSIM.with(|c| c.borrow_mut().as_mut().unwrap().in_reader = true);
            for _ in 0..n {
                d("{\"method\":\"interrupt\"}");
            }
            SESSIM.with(|c| c.borrow_mut().as_mut().unwrap().in_reader = false);
        }
        Act::Raw(f) => f.store(true, Ordering::SeqCst),
    }
}

// ---------------------------------------------------------------------
// envfaults: step-indexed faults for runs of the ordinary CLI
//   VERIF_FAULTS="interrupt@1234,interrupt@5000"   set the session's flag at
//                                                  global step 1234 and 5000
//   VERIF_FAULTS="monitor"                          check the step/tick invariants
//   VERIF_FAULTS_LOG=<path>                         where to append observations
// ---------------------------------------------------------------------

struct EnvPlan {
    interrupts: Vec<usize>,
    monitor: bool,
    log: Option<String>,
}

static ENV_PLAN: std::sync::OnceLock<EnvPlan> = std::sync::OnceLock::new();
static ENV_STEP: AtomicUsize = AtomicUsize::new(0);

thread_local! {
    // (env address, last ticks) for the monitor
    static MON_LAST: RefCell<Option<(usize, usize)>> = const { RefCell::new(None) };
}

fn env_log(line: &str) {
    if let Some(Some(p)) = ENV_PLAN.get().map(|p| p.log.clone()) {
        use std::io::Write;
        if let Ok(mut f) = std::fs::OpenOptions::new().create(true).append(true).open(p) {
            let _ = writeln!(f, "{line}");
        }
    }
}

fn env_step(
    env: &mut Env,
    session: &Session,
    _expr_state: &ExpressionState,
    _outer_expr: &Rc<Expression>,
) {
    let Some(plan) = ENV_PLAN.get() else {
        return;
    };
    let step = ENV_STEP.fetch_add(1, Ordering::SeqCst) + 1;
    if plan.interrupts.contains(&step) {
        // What the Ctrl-C handler does: set the shared flag.
        session.interrupted.store(true, Ordering::SeqCst);
        let frames: Vec<String> = env
            .stack
            .0
            .iter()
            .map(|f| format!("{}", f.enclosing_name))
            .collect();
        env_log(&format!(
            "fired interrupt@{step} frame={} depth={} stack={}",
            env.top_frame_name(),
            env.stack.0.len(),
            frames.join(" > ")
        ));
    }
    if plan.monitor {
        if step % 1000 == 0 {
            env_log(&format!("steps {step}"));
        }
        let addr = env as *const Env as usize;
        MON_LAST.with(|m| {
            let mut m = m.borrow_mut();
            if let Some((a, last)) = *m {
                if a == addr && env.ticks != last + 1 && env.ticks != 1 {
                    env_log(&format!(
                        "MONITOR-VIOLATION ticks went from {last} to {} in one step",
                        env.ticks
                    ));
                }
            }
            *m = Some((addr, env.ticks));
        });
        // (whether a step with ticks >= tick_limit is *executed* cannot be seen here: the
        // evaluator's own limit check follows this hook.  The controller bounds the total
        // number of steps instead, from the `steps N` lines.)
        if let Some(limit) = env.stack_limit {
            if env.stack.0.len() > limit + 1 {
                env_log(&format!(
                    "MONITOR-VIOLATION stack depth {} > stack_limit {limit} + 1",
                    env.stack.0.len()
                ));
            }
        }
    }
}

/// Called at exit paths we control (not required): number of steps seen.
pub(crate) fn env_steps_seen() -> usize {
    ENV_STEP.load(Ordering::SeqCst)
}

// ---------------------------------------------------------------------
// Probes of hook H4 (nREPL): the two flag writes that happen inside server
// threads rather than inside a call the simulator itself makes.
// ---------------------------------------------------------------------

pub(crate) fn probe_worker_reset(flag: &Arc<AtomicBool>) {
    if MODE.load(Ordering::Relaxed) == MODE_SHUTTLE {
        crate::nrepl::verif_api::on_worker_reset(flag);
    }
}

pub(crate) fn probe_watchdog_store(flag: &Arc<AtomicBool>) {
    if MODE.load(Ordering::Relaxed) == MODE_SHUTTLE {
        crate::nrepl::verif_api::on_watchdog_store(flag);
    }
}

// ---------------------------------------------------------------------
// Entry point (hook H1)
// ---------------------------------------------------------------------

pub(crate) fn entry() -> Option<i32> {
    let args: Vec<String> = std::env::args().collect();
    if args.get(1).map(|s| s.as_str()) == Some("verif-sim") {
        let rest: Vec<String> = args[2..].to_vec();
        return Some(match rest.first().map(|s| s.as_str()) {
            Some("sessim") => {
                MODE.store(MODE_SESSIM, Ordering::SeqCst);
                crate::json_session::verif_api::serve(&rest[1..])
            }
            Some("threadsim") => {
                MODE.store(MODE_SHUTTLE, Ordering::SeqCst);
                crate::nrepl::verif_api::serve(&rest[1..])
            }
            Some("version") => {
                println!("garden-verif simulator 1");
                0
            }
            _ => {
                eprintln!("usage: garden-verif verif-sim (sessim|threadsim|version) ...");
                2
            }
        });
    }
    if let Ok(spec) = std::env::var("VERIF_FAULTS") {
        let mut plan = EnvPlan {
            interrupts: vec![],
            monitor: false,
            log: std::env::var("VERIF_FAULTS_LOG").ok(),
        };
        for part in spec.split(',') {
            let part = part.trim();
            if part == "monitor" {
                plan.monitor = true;
            } else if let Some(k) = part.strip_prefix("interrupt@") {
                if let Ok(k) = k.parse::<usize>() {
                    plan.interrupts.push(k);
                }
            }
        }
        if plan.monitor || !plan.interrupts.is_empty() {
            let _ = ENV_PLAN.set(plan);
            MODE.store(MODE_ENV, Ordering::SeqCst);
        }
    }
    None
}
