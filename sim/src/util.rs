//! Small deterministic helpers shared by the engines.

pub(crate) const FNV_OFFSET: u64 = 0xcbf29ce484222325;
const FNV_PRIME: u64 = 0x100000001b3;

pub(crate) fn fnv_bytes(mut h: u64, bytes: &[u8]) -> u64 {
    for b in bytes {
        h ^= *b as u64;
        h = h.wrapping_mul(FNV_PRIME);
    }
    h
}

pub(crate) fn fnv_u64(h: u64, v: u64) -> u64 {
    fnv_bytes(h, &v.to_le_bytes())
}

/// SplitMix64: the only PRNG used by the Rust side outside shuttle.
#[derive(Clone)]
pub(crate) struct SplitMix64(pub(crate) u64);

impl SplitMix64 {
    pub(crate) fn next_u64(&mut self) -> u64 {
        self.0 = self.0.wrapping_add(0x9E3779B97F4A7C15);
        let mut z = self.0;
        z = (z ^ (z >> 30)).wrapping_mul(0xBF58476D1CE4E5B9);
        z = (z ^ (z >> 27)).wrapping_mul(0x94D049BB133111EB);
        z ^ (z >> 31)
    }
    pub(crate) fn below(&mut self, n: u64) -> u64 {
        if n == 0 {
            0
        } else {
            self.next_u64() % n
        }
    }
    pub(crate) fn chance(&mut self, p: f64) -> bool {
        ((self.next_u64() >> 11) as f64 / (1u64 << 53) as f64) < p
    }
}

/// Install a panic hook that records the message and location of a panic in
/// a thread-local instead of printing it, so that `catch_unwind` callers can
/// report "the thread died here" deterministically.
pub(crate) fn install_quiet_panic_hook() {
    std::panic::set_hook(Box::new(|info| {
        let msg = if let Some(s) = info.payload().downcast_ref::<&str>() {
            (*s).to_owned()
        } else if let Some(s) = info.payload().downcast_ref::<String>() {
            s.clone()
        } else {
            "<non-string panic payload>".to_owned()
        };
        let loc = info
            .location()
            .map(|l| format!("{}:{}", l.file(), l.line()))
            .unwrap_or_default();
        LAST_PANIC.with(|p| *p.borrow_mut() = Some(format!("{msg} @ {loc}")));
    }));
}

thread_local! {
    pub(crate) static LAST_PANIC: std::cell::RefCell<Option<String>> = const { std::cell::RefCell::new(None) };
}

pub(crate) fn take_last_panic() -> Option<String> {
    LAST_PANIC.with(|p| p.borrow_mut().take())
}
