"""Controller: runs a property's cases on a pool of workers, aggregates
evidence, filters known findings, minimises and confirms violations."""
import json
import multiprocessing
import os
import shutil
import sys
import time
import traceback

import common
from common import Rng, mix

_WORKER = {}


def _worker_init(prop_name, tier, seed, root, stop=None):
    import importlib
    _WORKER["stop"] = stop
    mod = importlib.import_module("props." + prop_name)
    _WORKER["prop"] = mod.PROP
    _WORKER["tier"] = tier
    _WORKER["seed"] = seed
    _WORKER["ctx"] = None
    _WORKER["root"] = root


def _get_ctx():
    if _WORKER["ctx"] is None:
        rank = multiprocessing.current_process()._identity
        rank = rank[0] if rank else 0
        _WORKER["ctx"] = _WORKER["prop"].make_context(rank, _WORKER["root"])
    return _WORKER["ctx"]


def _worker_run(index):
    if _WORKER.get("stop") is not None and _WORKER["stop"].is_set():
        # the batch's wall cap was reached: cases not yet started are skipped, cases in flight finish
        return {"index": index, "skipped_by_wall_cap": True}
    prop = _WORKER["prop"]
    tier = _WORKER["tier"]
    case_seed = mix(_WORKER["seed"], prop.id, index)
    t0 = time.time()
    try:
        ctx = _get_ctx()
        case = prop.gen_case(Rng(case_seed), tier, index)
        res = prop.run_case(ctx, case)
        res["index"] = index
        res["case_seed"] = case_seed
        res["wall"] = time.time() - t0
        return res
    except Exception:
        return {"index": index, "case_seed": case_seed, "harness_error": traceback.format_exc(),
                "wall": time.time() - t0}


def run_property(prop, tier, seed, nproc=None, count=None, wall_cap=None):
    """Run `count` cases of `prop`; returns (aggregated dict, violations list)."""
    nproc = nproc or getattr(prop, "nproc", None) or min(16, os.cpu_count() or 4)
    count = count or prop.counts[tier]
    wall_cap = wall_cap or prop.wall_caps.get(tier)
    t0 = time.time()
    ctx = multiprocessing.get_context("fork")
    results = []
    harness_errors = []
    stopped_early = False
    import tempfile
    root = tempfile.mkdtemp(prefix=f"verif-{prop.id}-")
    try:
        stop = ctx.Event()
        with ctx.Pool(nproc, initializer=_worker_init, initargs=(prop.name, tier, seed, root, stop)) as pool:
            it = pool.imap_unordered(_worker_run, range(count), chunksize=1)
            for res in it:
                if res.get("skipped_by_wall_cap"):
                    continue
                if "harness_error" in res:
                    harness_errors.append(res)
                else:
                    results.append(res)
                if wall_cap and time.time() - t0 > wall_cap and not stopped_early:
                    # Stop starting new cases, but let the ones in flight finish (each is bounded by its
                    # own step / CPU / time-out caps): a case that hangs is exactly the one that must not
                    # be thrown away when time runs out.
                    stopped_early = True
                    stop.set()
    finally:
        shutil.rmtree(root, ignore_errors=True)
    results.sort(key=lambda r: r["index"])
    return results, harness_errors, stopped_early, time.time() - t0


def aggregate(prop, tier, seed, results, wall, stopped_early, extra=None):
    evaluations = 0
    nontrivial = set()
    stats = {}
    samples = []
    sim_steps = 0
    for r in results:
        evaluations += r.get("evaluations", 0)
        for h in r.get("nontrivial", []):
            nontrivial.add(h)
        for k, v in r.get("stats", {}).items():
            stats[k] = stats.get(k, 0) + v
        sim_steps += r.get("sim_steps", 0)
        if r.get("sample") is not None and len(samples) < 3:
            samples.append(r["sample"])
    cov = {
        "evaluations": evaluations,
        "distinct_nontrivial": len(nontrivial),
        "rule": prop.rule,
        "samples": samples,
        "cases": len(results),
        "case_seeds": {"first_index": 0, "count": len(results), "derivation": "mix(VERIF_SEED, property id, index)"},
        "runs_per_hour": int(evaluations / wall * 3600) if wall > 0 else 0,
        "simulated_time": {"evaluation_steps": sim_steps},
        "faults_fired": {k[6:]: v for k, v in sorted(stats.items()) if k.startswith("fault:")},
        "probes": {k[6:]: v for k, v in sorted(stats.items()) if k.startswith("probe:")},
        "counters": {k: v for k, v in sorted(stats.items()) if not k.startswith(("fault:", "probe:", "site:"))},
        "distinct_fault_sites": len([k for k in stats if k.startswith("site:")]),
        "real_components": prop.real_components,
        "stub_components": prop.stub_components,
        "stopped_early_by_wall_cap": stopped_early,
        "exhaustive": False,
    }
    zero_probes = [k for k in getattr(prop, "expected_probes", []) if stats.get("probe:" + k, 0) == 0]
    cov["probes_stuck_at_zero"] = zero_probes
    if extra:
        cov.update(extra)
    return cov


def write_evidence(prop, tier, seed, cov, wall, n_viol, known_matched):
    os.makedirs(common.EVIDENCE, exist_ok=True)
    cov = dict(cov)
    cov["known_findings_matched"] = known_matched
    ev = {
        "property_id": prop.id,
        "tier": tier,
        "seed": seed,
        "level": prop.level,
        "coverage": cov,
        "assumptions": prop.assumptions,
        "wall_s": round(wall, 2),
        "violations": n_viol,
    }
    path = os.path.join(common.EVIDENCE, prop.id + ".json")
    tmp = path + ".tmp"
    with open(tmp, "w") as f:
        json.dump(ev, f, indent=1, sort_keys=True)
        f.write("\n")
    os.replace(tmp, path)
    return path


def match_known(prop_id, violation, known):
    for k in known:
        if k.get("status") != "known" or k.get("property") != prop_id:
            continue
        if violation.get("key", "").startswith(k.get("key_prefix", "\0")):
            return k
    return None


def save_replay(prop, v, tag):
    d = os.path.join(common.OUT, "replays", prop.id)
    os.makedirs(d, exist_ok=True)
    name = f"{prop.id}-{tag}-{common.stable_hash(v['replay']) & 0xffffffff:08x}.json"
    path = os.path.join(d, name)
    doc = {
        "property": prop.id,
        "engine": prop.engine,
        "violation_class": v["class"],
        "key": v["key"],
        "expect": v.get("detail"),
        "replay": v["replay"],
    }
    with open(path, "w") as f:
        json.dump(doc, f, indent=1, sort_keys=True)
        f.write("\n")
    return path


def check_main(prop, argv):
    """Entry point shared by all properties: build, run, triage, evidence."""
    import argparse
    ap = argparse.ArgumentParser()
    ap.add_argument("--tier", default=os.environ.get("VERIF_TIER", "quick"))
    ap.add_argument("--seed", type=int, default=int(os.environ.get("VERIF_SEED", "1")))
    ap.add_argument("--count", type=int, default=None)
    ap.add_argument("--nproc", type=int, default=None)
    ap.add_argument("--replay", default=None)
    ap.add_argument("--no-build", action="store_true")
    ap.add_argument("--no-minimise", action="store_true")
    ap.add_argument("--wall-cap", type=float, default=None)
    args = ap.parse_args(argv)
    if args.tier not in ("quick", "thorough"):
        args.tier = "quick"

    if not args.no_build:
        common.build()

    if args.replay:
        return replay_main(prop, args.replay)

    print(f"[{prop.id}] tier={args.tier} VERIF_SEED={args.seed}")
    results, herrs, stopped_early, wall = run_property(
        prop, args.tier, args.seed, nproc=args.nproc, count=args.count, wall_cap=args.wall_cap)
    if herrs:
        print(f"HARNESS-ERROR: {len(herrs)} case(s) failed inside the harness; first:")
        print(herrs[0]["harness_error"])
        return 2
    if not results:
        print("HARNESS-ERROR: no case completed")
        return 2

    known = common.load_known_findings()
    all_viol = []
    for r in results:
        for v in r.get("violations", []):
            v["case_index"] = r["index"]
            v["case_seed"] = r["case_seed"]
            all_viol.append(v)

    # group by key: one report per distinct key
    by_key = {}
    for v in all_viol:
        by_key.setdefault(v["key"], []).append(v)

    known_matched = []
    new_keys = []
    by_entry = {}
    for key in sorted(by_key):
        k = match_known(prop.id, by_key[key][0], known)
        if k is not None:
            known_matched.append(key)
            e = by_entry.setdefault(k["key_prefix"], {"what": k.get("what", key), "keys": [], "n": 0})
            e["keys"].append(key)
            e["n"] += len(by_key[key])
        else:
            new_keys.append(key)
    for prefix in sorted(by_entry):
        e = by_entry[prefix]
        print(f"KNOWN-FINDING: property={prop.id} {e['what']} [matched keys {e['keys']}, {e['n']} occurrence(s)]")

    reported = 0
    ctx = None
    unconfirmed = 0
    for key in new_keys[:8]:
        v = min(by_key[key], key=lambda v: len(json.dumps(v["replay"])))
        if ctx is None:
            ctx = prop.make_context(99)
        # confirm in a fresh simulator process
        again = prop.replay(ctx, v["replay"])
        if not any(a["key"] == key for a in again):
            if v["class"] in getattr(prop, "noisy_classes", ()):
                print(f"[{prop.id}] note: {key} (case seed {v['case_seed']}) did not show again on replay: measurement noise, dropped")
                continue
            print(f"HARNESS-ERROR: violation {key} (case seed {v['case_seed']}) did not reproduce on replay")
            unconfirmed += 1
            continue
        if not args.no_minimise and hasattr(prop, "minimise"):
            try:
                v = prop.minimise(ctx, v)
            except Exception:
                traceback.print_exc()
        path = save_replay(prop, v, "viol")
        print(f"VIOLATION property={prop.id} replay={path}")
        print(f"  class={v['class']} key={key} case_seed={v['case_seed']} occurrences={len(by_key[key])}")
        print(f"  detail: {str(v.get('detail'))[:600]}")
        reported += 1
    if len(new_keys) > 8:
        print(f"  ... and {len(new_keys) - 8} more distinct violation keys: {new_keys[8:20]}")
        reported += len(new_keys) - 8
    if ctx is not None:
        prop.close_context(ctx)

    cov = aggregate(prop, args.tier, args.seed, results, wall, stopped_early,
                    extra=prop.extra_coverage(results) if hasattr(prop, "extra_coverage") else None)
    path = write_evidence(prop, args.tier, args.seed, cov, wall, reported, known_matched)
    print(f"[{prop.id}] cases={len(results)} evaluations={cov['evaluations']} distinct_nontrivial={cov['distinct_nontrivial']} "
          f"faults={cov['faults_fired']} wall={wall:.1f}s evidence={path}")
    if cov["probes_stuck_at_zero"]:
        print(f"[{prop.id}] WARNING probes stuck at zero: {cov['probes_stuck_at_zero']}")
    if unconfirmed and not reported:
        return 2
    return 1 if reported else 0


def replay_main(prop, path):
    doc = json.load(open(path))
    ctx = prop.make_context(98)
    viol = prop.replay(ctx, doc["replay"])
    prop.close_context(ctx)
    known = common.load_known_findings()
    rc = 0
    for v in viol:
        k = match_known(prop.id, v, known)
        if k:
            print(f"KNOWN-FINDING: property={prop.id} {k.get('what', v['key'])}")
            continue
        print(f"VIOLATION property={prop.id} replay={path}")
        print(f"  class={v['class']} key={v['key']}")
        print(f"  detail: {str(v.get('detail'))[:1500]}")
        rc = 1
    if not viol:
        print(f"[{prop.id}] replay {path}: no violation")
    return rc
