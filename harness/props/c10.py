""":abort returns the session to a clean top level (C10).

Abort is the "cancel and recover" operation; the reference model is a fresh
simulated session that was given only the completed toplevel work P and then
the same probes."""
import json
import re

import common
import sites
from common import Rng, mix, run_req, final_response, printed, outcome, worker_responses
from gen import ProgGen, Scope, gen_prog
from props.base import SessimProp
from props.c07 import frame_of

LOCAL_NAMES = ["prew", "lw", "mw", "accw", "iw", "cw", "dw", "vw", "uw", "kw", "q", "tw", "bw", "p", "this", "zq"]
PROBE_CMDS = [":resume", ":skip", ":fstmts", ":fvalues", ":locals", ":stack"]


def gen_prefix(rng, tag):
    """Completed toplevel work: definitions, lets, assignments.  Returns
    (requests, toplevel var names, function call probes)."""
    r = rng
    g = ProgGen(r.fork("g"), size=8, tag=tag)
    defs = g.gen_defs()
    reqs = []
    if defs:
        reqs.append("\n".join(defs))
    sc = Scope()
    names = []
    for i in range(r.randint(1, 5)):
        ty = r.weighted([(4, "I"), (1, "S"), (2, "L"), (1, "B")])
        name = f"g{tag}{i}"
        e = g.expr(ty, sc)
        if ty == "I":
            e = f"({e}) % 1000"
        stmt = f"let {name} = {e}"
        sc.add(ty, name)
        names.append(name)
        if r.chance(0.3) and sc.all("I"):
            v = r.choice(sc.all("I"))
            stmt += f" {v} = ({g.int_expr(sc, 1)}) % 1000"
        if r.chance(0.3):
            stmt += " " + g.print_stmt(sc)
        if r.chance(0.35):
            # any other completed toplevel statement: loops left by break / continue, ifs, matches, calls
            g.budget = 4
            g.loop_depth = 0
            stmt += " " + g.stmt(sc)
        reqs.append(stmt)
    calls = []
    for (fname, n) in g.funs:
        calls.append(f"{fname}({', '.join(str(r.randint(0, 9)) for _ in range(n))})")
    return reqs, names, calls


def gen_stop(rng, tag, idx):
    """A request that stops inside nested calls / loops / blocks without
    touching toplevel variables.  Returns (definitions or None, request, fault or None, kind)."""
    r = rng
    kind = r.weighted([(5, "error"), (4, "interrupt"), (2, "test_error"), (1, "test_interrupt")])
    if kind == "test_error":
        # the stop is inside a test body (or something it calls): the session is left in the test's frame
        key, imports, expr = r.choice(sites.all_sites())
        placement = r.choice(sites.PLACEMENTS)
        pdefs, top = sites.place(expr, placement, tag="w")
        defs = "\n".join(x for x in [imports, sites.LANG_DEFS, pdefs] if x)
        return defs, f"test stopt{tag}{idx} {{ {top} }}", None, f"error:{key}@{placement}/test"
    if kind == "test_interrupt":
        ptag = f"{tag}t{idx}"
        defs, main = gen_prog(r.fork("stopprog"), size=r.randint(4, 10), tag=ptag)
        return defs, f"test stopt{tag}{idx} {{ {' '.join(main)} }}", {"at": r.randint(1, 120), "kind": r.choice(["interrupt", "mid"])}, "interrupt/test"
    if kind == "error":
        site_list = sites.all_sites()
        key, imports, expr = r.choice(site_list)
        placement = r.choice(sites.PLACEMENTS)
        pdefs, top = sites.place(expr, placement, tag="w")
        defs = "\n".join(x for x in [imports, sites.LANG_DEFS, pdefs] if x)
        if r.chance(0.5):
            name = f"stop{tag}{idx}"
            defs += f"\nfun {name}() {{ {top} }}"
            return defs, f"{name}()", None, f"error:{key}@{placement}/fun"
        # (a bare toplevel `{ }` does not open a scope: its lets are toplevel
        # variables, so the stop is put inside an `if` block instead)
        return defs, "if True { " + top + " } else { 0 }", None, f"error:{key}@{placement}/block"
    # interrupt inside a terminating program wrapped in a function
    ptag = f"{tag}s{idx}"
    defs, main = gen_prog(r.fork("stopprog"), size=r.randint(4, 10), tag=ptag)
    name = f"stop{tag}{idx}"
    if r.chance(0.6):
        defs += f"\nfun {name}() {{ {' '.join(main)} }}"
        return defs, f"{name}()", {"at": r.randint(1, 120), "kind": r.choice(["interrupt", "mid"])}, "interrupt/fun"
    return defs, "if True { " + " ".join(main) + " } else { 0 }", {"at": r.randint(1, 120), "kind": r.choice(["interrupt", "mid"])}, "interrupt/block"


CTX_EXPRS = ["lw + 1", "prew", "accw", "q", "1 + 1", "throw(\"ctx\")", "nosuchvar", "[1, 2].len()", "this", "twov(1)",
             "println(\"ctxout\")"]


class C10(SessimProp):
    id = "C10"
    name = "c10"
    counts = {"quick": 2500, "thorough": 150000}
    wall_caps = {"quick": 150, "thorough": 1500}
    rule = ("case = prefix P of completed toplevel work (definitions, lets, assignments), then 1..3 nested stops (a runtime "
            "error at one of the C07 sites placed in a function, a toplevel block or a test body, or an interrupt at step k of a "
            "generated program run as a function, a block or a test body), optionally expressions evaluated in the stopped context (some of which stop again), an "
            "optional idle interrupt, :abort once or twice, then probes (every toplevel variable of P, every local name of "
            "the aborted frames, calls of P's functions, a fresh let and read-back, :resume :skip :fstmts :fvalues :locals "
            ":stack). The probe responses must equal those of a fresh simulated session given P and the same probes. "
            "evaluations = simulated sessions (test + reference). distinct_nontrivial = distinct (stop kinds, context "
            "expressions, abort count) among cases in which at least one stop really left the session inside a frame or block")
    expected_probes = ["stopped_by_error", "stopped_by_interrupt", "stopped_in_function_frame", "stopped_in_toplevel_block",
                       "ctx_expr_stopped_again", "double_abort", "three_stops", "idle_interrupt_before_abort", "enumerated_k",
                       "stopped_in_test_body"]

    def gen_case(self, rng, tier, index):
        r = rng
        tag = "a"
        reqs, names, calls = gen_prefix(r.fork("prefix"), tag)
        nstops = r.weighted([(5, 1), (3, 2), (2, 3)])
        stops = []
        for i in range(nstops):
            defs, req, fault, kind = gen_stop(r.fork("stop", i), tag, i)
            ctx = [r.choice(CTX_EXPRS) for _ in range(r.weighted([(5, 0), (3, 1), (2, 2)]))]
            stops.append({"defs": defs, "req": req, "fault": fault, "kind": kind, "ctx": ctx})
        probes = []
        for n in names:
            probes.append(n)
        for ln in r.sample(LOCAL_NAMES, 6):
            probes.append(ln)
        for c in calls:
            probes.append(c)
        probes.append("let fresha = 7")
        probes.append("fresha + 1")
        cmds = r.sample(PROBE_CMDS, r.randint(2, len(PROBE_CMDS)))
        for c in cmds:
            probes.insert(r.randint(0, len(probes)), c)
        if names:
            probes.append(" ".join(f"println(string_repr({n}))" for n in names) + " 0")
        return {"prefix": reqs, "stops": stops, "aborts": r.weighted([(4, 1), (1, 2)]),
                "idle_interrupt": r.chance(0.15), "probes": probes,
                "enumerate_k": r.chance(0.15) and stops[0]["fault"] is not None}

    def scenarios(self, case, k_override=None):
        """(test scenario, reference scenario, index of first probe step in each)"""
        pre = [{"op": "send", "raw": run_req(p)} for p in case["prefix"]]
        # definitions used by the stops are loaded in BOTH sessions (they are part of "the same definitions")
        stop_defs = [{"op": "send", "raw": run_req(s["defs"])} for s in case["stops"] if s["defs"]]
        test = list(pre) + list(stop_defs)
        ref = list(pre) + list(stop_defs)
        for i, s in enumerate(case["stops"]):
            st = {"op": "send", "raw": run_req(s["req"])}
            if s["fault"]:
                f = dict(s["fault"])
                if i == 0 and k_override is not None:
                    f["at"] = k_override
                st["faults"] = [f]
            test.append(st)
            for c in s["ctx"]:
                test.append({"op": "send", "raw": run_req(c)})
        if case["idle_interrupt"]:
            test.append({"op": "idle_interrupt"})
            ref.append({"op": "idle_interrupt"})
        for _ in range(case["aborts"]):
            test.append({"op": "send", "raw": run_req(":abort")})
        pt, pr = len(test), len(ref)
        for p in case["probes"]:
            test.append({"op": "send", "raw": run_req(p)})
            ref.append({"op": "send", "raw": run_req(p)})
        return ({"steps": test, "step_budget": 30000}, {"steps": ref, "step_budget": 30000}, pt, pr)

    @staticmethod
    def observe(rd):
        line = final_response(rd)
        oc = outcome(line)
        if oc[0] == "cmd":
            # syntax ids count everything the session has parsed so far (the aborted requests too):
            # they identify nodes, they are not session state
            oc = ("cmd", re.sub(r"SyntaxId\(\d+\)", "SyntaxId(N)", oc[1]) if isinstance(oc[1], str) else oc[1])
        return {"outcome": list(oc), "frame": frame_of(line), "printed": printed(rd),
                "n": len(worker_responses(rd)), "panic": rd.get("panic")}

    def compare(self, case, tres, rres, pt, pr):
        """Returns (status, violation)"""
        if tres.get("executor_died") or rres.get("executor_died"):
            return "died", ("simulator-process-died", "C10:simulator-process-died", json.dumps([tres, rres])[:400])
        # the reference must have completed P cleanly
        for st in rres["steps"][:pr]:
            for rd in st["rounds"]:
                if rd.get("panic"):
                    return "prefix-panicked", None
                if st["op"] == "send" and outcome(final_response(rd))[0] not in ("ok",):
                    return "prefix-not-clean", None
        if rres["dead"]:
            return "reference-died", None
        # the test session must not have died before the abort (that is C09's subject)
        for st in tres["steps"][:pt]:
            for rd in st["rounds"]:
                if rd.get("panic"):
                    return "panicked-before-abort", None
        # An interrupt that was reported has been consumed: if the flag is still set, the first
        # evaluation after :abort is cancelled by an interrupt nobody sent.  (An interrupt that arrived
        # during the last step of a request that then completed is legitimately still pending: by design
        # it cancels the next evaluation - such cases are skipped, the reference session has no such event.)
        for st in tres["steps"][:pt]:
            for rd in st["rounds"]:
                if rd.get("flag_after") and rd.get("fired"):
                    if rd.get("stopped_by_interrupt"):
                        return "ok", ("flag-left-set", "C10:flag-left-set",
                                      "a request was answered `interrupted` and the interrupt flag is still set afterwards: "
                                      "after :abort the next evaluation is cancelled at its first step")
                    return "interrupt-pending-after-completed-request(skipped)", None
        if len(tres["steps"]) < pt + len(case["probes"]) and not tres["dead"]:
            return "short", None
        tp = tres["steps"][pt:]
        rp = rres["steps"][pr:]
        for i, probe in enumerate(case["probes"]):
            if i >= len(tp):
                return "ok", ("panic-after-abort", "C10:panic-after-abort",
                              f"the session died while answering probes after :abort; last probe {case['probes'][max(i - 1, 0)]!r}")
            a = self.observe(tp[i]["rounds"][0])
            if a["panic"]:
                return "ok", ("panic-after-abort", "C10:panic-after-abort",
                              f"probe {probe!r} after :abort killed the eval thread: {a['panic']}")
            if i >= len(rp):
                return "reference-short", None
            b = self.observe(rp[i]["rounds"][0])
            if b["panic"]:
                return "reference-panicked", None
            if probe == ":fvalues" and a["outcome"][0] == "cmd" and b["outcome"][0] == "cmd":
                # A fresh session accumulates the values of completed toplevel
                # evaluations on frame 0; :abort drops them.  Cleaning more than a
                # fresh session holds is not "something left over": require only
                # that nothing EXTRA is there.
                la, lb = a["outcome"][1].splitlines(), b["outcome"][1].splitlines()
                # (:fvalues lists the newest value first; :abort keeps only the oldest one, later probes add theirs)
                it = iter(lb)
                if all(any(x == y for y in it) for x in la):  # la is a subsequence of lb: nothing extra
                    a = b
            if a != b:
                which = [k for k in a if a[k] != b[k]]
                cls = "probe-differs"
                pk = probe.split(" ")[0] if probe.startswith(":") else ("local" if probe in LOCAL_NAMES else "expr")
                if any(i > 0 and s["kind"].endswith("/test") for i, s in enumerate(case["stops"])):
                    # a test definition was evaluated while the session was already stopped: the known
                    # "test run while stopped" defect (it unwinds the stopped evaluation and may switch
                    # the toplevel to the stopped frame's namespace) - keyed apart from abort's own work
                    pk = "test-run-while-stopped:" + pk
                return "ok", (cls, f"C10:probe-differs:{pk}",
                              f"probe #{i} {probe!r} after :abort answered {a} but a fresh session with the same "
                              f"definitions and toplevel variables answers {b} (differs in {which})")
        return "ok", None

    def run_case(self, ctx, case):
        ex = ctx["ex"]
        stats = {}
        out = {"evaluations": 0, "nontrivial": [], "violations": [], "stats": stats, "sim_steps": 0, "sample": None}

        def bump(k, n=1):
            stats[k] = stats.get(k, 0) + n

        ks = [None]
        test_sc, ref_sc, pt, pr = self.scenarios(case)
        rres = ex.run(ref_sc)
        out["evaluations"] += 1
        first = True
        while ks:
            k = ks.pop(0)
            test_sc, _, pt, pr = self.scenarios(case, k)
            tres = ex.run(test_sc)
            out["evaluations"] += 1
            status, v = self.compare(case, tres, rres, pt, pr)
            bump("status:" + status)
            really_stopped = False
            if not tres.get("executor_died"):
                si = len(case["prefix"]) + sum(1 for s in case["stops"] if s["defs"])
                for s in case["stops"]:
                    if si >= len(tres["steps"]):
                        break
                    rd = tres["steps"][si]["rounds"][0]
                    out["sim_steps"] += rd["steps"]
                    oc = outcome(final_response(rd))
                    fr = frame_of(final_response(rd))
                    if oc[0] == "err" and fr is not None:
                        bump("probe:stopped_by_error")
                        bump("fault:runtime_error_stop")
                        really_stopped = True
                    if oc[0] == "interrupted":
                        bump("probe:stopped_by_interrupt")
                        bump("fault:interrupt_at_step")
                        really_stopped = True
                        for f in rd["fired"]:
                            bump(f"site:{f['expr']}/{f['state']}/d{min(f['depth'], 4)}")
                    if s["kind"].endswith("/test") and oc[0] in ("err", "interrupted"):
                        bump("probe:stopped_in_test_body")
                    if isinstance(fr, str) and fr.startswith(("fun ", "method ", "closure", "test ")):
                        bump("probe:stopped_in_function_frame")
                    elif oc[0] in ("err", "interrupted") and fr is not None:
                        bump("probe:stopped_in_toplevel_block")
                    si += 1
                    for c in s["ctx"]:
                        if si < len(tres["steps"]):
                            o2 = outcome(final_response(tres["steps"][si]["rounds"][0]))
                            if o2[0] in ("err", "interrupted"):
                                bump("probe:ctx_expr_stopped_again")
                        si += 1
                if first and case["enumerate_k"] and really_stopped:
                    n = tres["steps"][len(case["prefix"]) + sum(1 for s in case["stops"] if s["defs"])]["rounds"][0]["steps"]
                    ks = list(range(1, min(n, 120) + 1))
                    bump("probe:enumerated_k")
            if case["aborts"] == 2:
                bump("probe:double_abort")
            if len(case["stops"]) == 3:
                bump("probe:three_stops")
            if case["idle_interrupt"]:
                bump("probe:idle_interrupt_before_abort")
                bump("fault:interrupt_while_idle")
            if really_stopped and status == "ok":
                out["nontrivial"].append(mix(common.stable_hash([s["kind"] for s in case["stops"]]),
                                             common.stable_hash([s["ctx"] for s in case["stops"]]),
                                             case["aborts"], k or 0))
            if v is not None:
                cls, key, detail = v
                c2 = dict(case)
                if k is not None:
                    c2 = json.loads(json.dumps(case))
                    c2["stops"][0]["fault"]["at"] = k
                    c2["enumerate_k"] = False
                out["violations"].append({"class": cls, "key": key, "detail": detail, "replay": {"case": c2}})
                break
            first = False
        if out["sample"] is None:
            out["sample"] = {"prefix": case["prefix"][:3], "stops": [(s["req"][:120], s["fault"], s["ctx"]) for s in case["stops"]],
                             "aborts": case["aborts"], "probes": case["probes"][:12]}
        return out

    def replay(self, ctx, rp):
        case = rp["case"]
        test_sc, ref_sc, pt, pr = self.scenarios(case)
        rres = ctx["ex"].run(ref_sc)
        tres = ctx["ex"].run(test_sc)
        status, v = self.compare(case, tres, rres, pt, pr)
        if v is None:
            return []
        cls, key, detail = v
        return [{"class": cls, "key": key, "detail": detail, "replay": rp}]

    def minimise(self, ctx, v):
        key = v["key"]
        case = json.loads(json.dumps(v["replay"]["case"]))
        case["enumerate_k"] = False

        def fails(c):
            got = self.replay(ctx, {"case": c})
            return bool(got) and got[0]["key"] == key

        def try_list(path_get, path_set):
            lst = path_get(case)
            i = len(lst) - 1
            while i >= 0:
                cand = json.loads(json.dumps(case))
                l2 = path_get(cand)
                del l2[i]
                if fails(cand):
                    del lst[i]
                i -= 1

        # stops (keep at least one), ctx expressions, probes, prefix
        while len(case["stops"]) > 1:
            done = True
            for i in range(len(case["stops"]) - 1, -1, -1):
                cand = json.loads(json.dumps(case))
                del cand["stops"][i]
                if cand["stops"] and fails(cand):
                    case = cand
                    done = False
                    break
            if done:
                break
        for s in case["stops"]:
            try_list(lambda c, s=s: c["stops"][case["stops"].index(s)]["ctx"] if s in case["stops"] else [], None)
        try_list(lambda c: c["probes"], None)
        try_list(lambda c: c["prefix"], None)
        if case["aborts"] == 2:
            cand = dict(case, aborts=1)
            if fails(cand):
                case = cand
        if case["idle_interrupt"]:
            cand = dict(case, idle_interrupt=False)
            if fails(cand):
                case = cand
        a = self.replay(ctx, {"case": case})
        b = self.replay(ctx, {"case": case})
        if a and b and a[0]["key"] == key and a[0]["detail"] == b[0]["detail"]:
            nv = dict(v)
            nv["replay"] = {"case": case}
            nv["detail"] = a[0]["detail"] + " | minimised: stops=" + json.dumps(
                [(s["req"], s["fault"], s["ctx"]) for s in case["stops"]])[:600] + f" aborts={case['aborts']}"
            return nv
        return v


PROP = C10()
