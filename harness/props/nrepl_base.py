"""Shared plug-in code of the two threadsim properties (C30, C31)."""
import json
import os
import shutil
import tempfile

import common
import nrepl_model
from common import Rng, mix


class ThreadsimProp:
    engine = "threadsim"
    level = "exploration"
    counts = {"quick": 1500, "thorough": 400000}
    wall_caps = {"quick": 170, "thorough": 1500}
    schedules_per_workload = 4
    real_components = [
        "nrepl::serve_connection (read/dispatch loop and shutdown sequence), writer_thread, Connection, handle_message, "
        "dispatch_to_session, session_worker, handle_eval / handle_load_file / eval_code_in_namespace, "
        "spawn_output_flusher, flush_output_buffer, sigint_watchdog, handle_completions, handle_lookup, read_message, "
        "write_message, and the whole evaluator - as real threads (coroutines) whose every spawn, send, recv, "
        "recv_timeout, join, sleep, blocking socket read and evaluation step is scheduled by the seeded shuttle "
        "scheduler; one or two connections served concurrently",
    ]
    stub_components = [
        "TcpListener accept loop (run_nrepl) - not executed; the scenario spawns serve_connection per connection as it does",
        "TcpStream - replaced (hook H5) by an in-memory endpoint: client bytes arrive in the chunks a simulated client "
        "thread sends (blocking read = scheduling point), with injected Interrupted errors, short reads and writes, EOF "
        "between or inside messages, and EPIPE after a chosen number of responses",
        "timers - shuttle has no time: recv_timeout on an empty queue expires when a draw from shuttle::rand says so "
        "(per-run probability), sleep ends when the scheduler next runs the thread",
        "the two std::sync::Mutex<String> output buffers and the AtomicBool flags stay std types (no scheduling point "
        "inside their critical sections; all accesses sit between shuttle scheduling points)",
        "the real clock behind `eval-msec` is not simulated; the field is zeroed in the recorded wire log and no fault "
        "decision depends on a message's length",
    ]
    assumptions = [
        "the wire log is what the simulated socket received from the real writer_thread, decoded message by message",
        "nondeterministic timer expiry over-approximates real time (a 100 ms timer may fire between any two steps of "
        "any other thread); nothing is claimed about promptness in milliseconds",
        "one seed = one schedule: RandomScheduler/PctScheduler::new_from_seed, timer and codec decisions drawn from "
        "shuttle::rand (part of the same seeded stream)",
    ]

    def make_context(self, rank, root=None):
        d, own = common.make_work_dir(self.id, rank, root)
        return {"ex": common.Executor("threadsim", d, timeout=180.0), "dir": d, "own_root": own}

    def close_context(self, ctx):
        ctx["ex"].close()
        shutil.rmtree(ctx.get("own_root") or ctx["dir"], ignore_errors=True)

    # subclasses: bias, checker, own_classes
    def gen_case(self, rng, tier, index):
        sc, reqs = nrepl_model.gen_nrepl(rng.fork("wl"), self.bias)
        scheds = []
        for i in range(self.schedules_per_workload):
            if rng.chance(0.25):
                scheds.append({"kind": "pct", "seed": rng.u64() >> 1, "depth": rng.randint(1, 4)})
            else:
                scheds.append({"kind": "random", "seed": rng.u64() >> 1})
        return {"sc": sc, "reqs": reqs, "scheds": scheds}

    def run_one(self, ex, sc, reqs, sched):
        full = dict(sc)
        full["sched"] = sched
        res = ex.run(full)
        if res.get("executor_died"):
            return None, [("simulator-process-died", json.dumps(res)[:400])]
        run = nrepl_model.Run(sc, reqs, res)
        return run, self.checker(run)

    def signature(self, run):
        """Interleaving signature: the sequence of (thread, visible operation)."""
        sig = []
        for e in run.events:
            k = e["k"]
            if k == "C":
                continue
            if k == "WIRE":
                m = e["msg"]
                sig.append(("W", m.get("id"), "done" if "status" in m else ("out" if "out" in m else "x")))
            elif k in ("I", "R"):
                sig.append((k, e.get("_conn"), e.get("_sess") or e.get("thread")))
            elif k == "SESSION":
                continue
            else:
                sig.append((k, e.get("conn")))
        # position of flag events relative to evaluation checks
        n_c = 0
        rel = []
        for e in run.events:
            if e["k"] == "C":
                n_c += 1
            elif e["k"] in ("I", "R"):
                rel.append((e["k"], n_c))
        return common.stable_hash([sig, rel])

    def run_case(self, ctx, case):
        ex = ctx["ex"]
        stats = {}
        out = {"evaluations": 0, "nontrivial": [], "violations": [], "stats": stats, "sim_steps": 0, "sample": None}

        def bump(k, n=1):
            stats[k] = stats.get(k, 0) + n

        wl_hash = common.stable_hash([c["ops"] for c in case["sc"]["conns"]])
        all_ops = [o for c in case["sc"]["conns"] for o in c["ops"]]
        for sched in case["scheds"]:
            run, viol = self.run_one(ex, case["sc"], case["reqs"], sched)
            out["evaluations"] += 1
            if run is not None:
                res = run.res
                n_c = sum(1 for e in run.events if e["k"] == "C")
                out["sim_steps"] += n_c
                bump("fault:timer_expiry", res["timers_fired"])
                bump("fault:codec_interrupted", res["codec_interrupted"])
                bump("fault:codec_short_write", res["codec_short_writes"])
                bump("fault:codec_short_read", res.get("codec_short_reads", 0))
                bump("fault:requests_coalesced_in_one_read", res.get("coalesced_reads", 0))
                bump("connections", len(case["sc"]["conns"]))
                if len(case["sc"]["conns"]) > 1:
                    bump("probe:two_connections_served_concurrently")
                bump("sched:" + sched["kind"])
                bump("virtual_ms", res["virtual_ms"])
                bump("threads_spawned", res["spawns"])
                for e in run.events:
                    if e["k"] == "I":
                        bump("fault:flag_set_by_" + e["src"])
                    elif e["k"] == "SIGINT":
                        bump("fault:sigint")
                    elif e["k"] == "WRITER-DIED":
                        bump("fault:writer_died")
                    elif e["k"] == "CLIENT-SEND" and e.get("cut"):
                        bump("fault:client_eof_mid_message")
                    elif e["k"] == "CLIENT-WAITED":
                        bump("client_waited_for_done" if e.get("satisfied") else "client_wait_gave_up")
                if any(o.get("op") == "disconnect" for o in all_ops):
                    bump("fault:client_disconnect")
                if any(o.get("chunks") for o in all_ops):
                    bump("fault:request_delivered_in_chunks")
                if any(o.get("op") == "raw" for o in all_ops):
                    bump("fault:non_dict_message")
                self.probes(run, bump)
                if res["outcome"] == "ok" and not run.writer_died:
                    out["nontrivial"].append(mix(wl_hash, self.signature(run)))
                    bump("distinct_interleaving_candidates")
            for cls, detail in viol:
                if cls not in self.own_classes and cls != "simulator-process-died":
                    bump("other_property_violation:" + cls)
                    continue
                out["violations"].append({"class": cls, "key": f"{self.id}:{cls}", "detail": detail,
                                          "replay": {"sc": case["sc"], "reqs": case["reqs"], "sched": sched}})
                break
            if out["violations"]:
                break
        if out["sample"] is None:
            out["sample"] = {"connections": [{"ops": [o.get("fields", o["op"]) for o in c["ops"]][:8], "codec": c["codec"]}
                                             for c in case["sc"]["conns"]],
                             "timer_permille": case["sc"]["timer_permille"], "schedules": case["scheds"]}
        return out

    def probes(self, run, bump):
        # evals that ended interrupted / flush-before-done races actually exercised
        for w in run.wire:
            m = w["msg"]
            if nrepl_model.has_status(m, "interrupted"):
                bump("probe:eval_interrupted")
        outs = {}
        for w in run.wire:
            m = w["msg"]
            if "out" in m and isinstance(m.get("id"), str):
                outs[m["id"]] = outs.get(m["id"], 0) + 1
        if any(v >= 2 for v in outs.values()):
            bump("probe:output_streamed_in_several_chunks")
        evs = run.events
        for i, e in enumerate(evs):
            if e["k"] == "I" and i + 1 < len(evs):
                # did the interrupt land while an eval of that session was between two checks?
                pass
        ks = [e["k"] for e in evs]
        if "I" in ks and "C" in ks:
            first_i = ks.index("I")
            if "C" in ks[first_i:]:
                bump("probe:flag_set_while_some_eval_running")
        if any(e["k"] == "I" and e["src"] == "watchdog" for e in evs):
            bump("probe:watchdog_broadcast")
        if any(e["k"] == "I" and e["src"] == "close" for e in evs):
            bump("probe:close_with_flag_store")

    def replay(self, ctx, rp):
        run, viol = self.run_one(ctx["ex"], rp["sc"], rp["reqs"], rp["sched"])
        return [{"class": c, "key": f"{self.id}:{c}", "detail": d, "replay": rp}
                for c, d in viol if c in self.own_classes or c == "simulator-process-died"][:1]

    def minimise(self, ctx, v):
        """Drop client operations; a schedule does not transfer to a changed
        workload, so each candidate is searched with fresh seeds."""
        cls = v["class"]
        rp = v["replay"]
        sc = json.loads(json.dumps(rp["sc"]))
        reqs = json.loads(json.dumps(rp["reqs"]))
        best_sched = rp["sched"]
        budget = [260]

        def find(sc_c, reqs_c):
            for i in range(40):
                if budget[0] <= 0:
                    return None
                budget[0] -= 1
                sched = {"kind": "random", "seed": mix("min", i) >> 1} if i % 4 else {"kind": "pct", "seed": mix("minp", i) >> 1, "depth": 1 + i % 3}
                run, viol = self.run_one(ctx["ex"], sc_c, reqs_c, sched)
                if any(c == cls for c, _ in viol):
                    return sched
            return None

        for ci in range(len(sc["conns"])):
            i = len(sc["conns"][ci]["ops"]) - 1
            while i >= 0 and budget[0] > 0:
                op = sc["conns"][ci]["ops"][i]
                if op.get("fields", {}).get("op") == "clone":
                    i -= 1
                    continue
                sc_c = json.loads(json.dumps(sc))
                del sc_c["conns"][ci]["ops"][i]
                reqs_c = []
                for m in reqs:
                    if m.get("conn", 0) == ci:
                        if m["op_index"] == i:
                            continue
                        m2 = dict(m)
                        if m2["op_index"] > i:
                            m2["op_index"] -= 1
                        reqs_c.append(m2)
                    else:
                        reqs_c.append(m)
                s = find(sc_c, reqs_c)
                if s:
                    sc, reqs, best_sched = sc_c, reqs_c, s
                i -= 1
        cand = {"sc": sc, "reqs": reqs, "sched": best_sched}
        a = self.replay(ctx, cand)
        b = self.replay(ctx, cand)
        if a and b and a[0]["class"] == cls and a[0]["detail"] == b[0]["detail"]:
            nv = dict(v)
            nv["replay"] = cand
            nv["detail"] = a[0]["detail"] + " | minimised ops: " + json.dumps([[o.get("fields", o["op"]) for o in c["ops"]] for c in sc["conns"]])[:900] + f" sched={best_sched}"
            return nv
        return v
