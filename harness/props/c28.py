"""C28 - the LSP server answers every request and never dies (worldsim)."""
import json
import os
import re
import shutil
import subprocess
import tempfile
import threading
import time

import common
import worldsim
from common import Rng, mix
from gen import gen_prog

REQUEST_METHODS = ["textDocument/completion", "textDocument/definition", "textDocument/hover",
                   "textDocument/signatureHelp", "textDocument/documentHighlight", "textDocument/documentSymbol",
                   "textDocument/formatting", "textDocument/codeAction", "textDocument/references", "textDocument/rename"]


def utf16_len(s):
    return len(s.encode("utf-16-le")) // 2


def byte_col_to_utf16(line_text, byte_col):
    b = line_text.encode("utf-8")
    if byte_col >= len(b):
        return utf16_len(line_text)
    prefix = b[:byte_col].decode("utf-8", errors="ignore")
    return utf16_len(prefix)


def gen_doc(rng):
    r = rng
    kind = r.weighted([(5, "prog"), (3, "mutated"), (2, "nonascii_safe"), (1, "nonascii_code"), (1, "empty"), (1, "tests"), (2, "imports"), (2, "parser_edge")])
    defs, main = gen_prog(r.fork("p"), size=r.randint(3, 10), tag=f"d{r.randint(0, 9)}")
    text = defs + "\n" + "\n".join(main) + "\n"
    if kind == "empty":
        return r.choice(["", "\n", "   ", "// only a comment"]), kind
    if kind == "parser_edge":
        # unfinished or doubled constructs, at the end of the document or followed by more text
        frag = r.choice(["(1,", "(1,,", "(1, 2,)", "[1,", "[1,,2]", "foo(", "foo(1,", "fun f(", "fun f(x: ) {}", "fun f(x,) {}",
                         "\"unterminated", "{", "match x {", "match x { Some(", "let (a,", "let (a,,b) = 1", "Dict[", "Dict[\"a\" =>",
                         "1 +", "if", "if x {", "else", "}}}", "struct S {", "struct S { x: }", "enum E {", "enum E { A(", "import",
                         "import \"", "for x in", "for (a,", "while", "x.", "x::", "fun<T", "method m(this:", "test", "test t {",
                         "let x: List<", "let x: = 1", "x = ", "x +=", "return", "not(", "a && ", "-", "1 . 2", "///", "/*"])
        if r.chance(0.5):
            return text + frag + ("\n" if r.chance(0.5) else ""), kind
        return frag + "\n" + text, kind
    if kind == "tests":
        return text + "test doc_test { assert(1 == 1) }\n", kind
    if kind == "imports":
        # the scratch world holds lib_ok.gdn (clean) and lib_bad.gdn (has errors of its own)
        imps = []
        for _ in range(r.randint(1, 3)):
            imps.append(r.choice(['import "./lib_ok.gdn" as lib', 'import "./lib_ok.gdn"', 'import "./no_such_file.gdn" as helpers',
                                  'import "./no_such_file.gdn"', 'import "__nosuch.gdn"', 'import "__fs.gdn" as fs',
                                  'import "./lib_bad.gdn" as bad', 'import "./sub"', 'import "./notutf8.gdn"',
                                  'import "/nonexistent/abs.gdn"', 'import ""']))
        use = r.choice(["", "lib::helper(1)\n", "println(no_such_var)\n", "helpers::x()\n"])
        return "\n".join(imps) + "\n\n" + use + (text if r.chance(0.5) else "println(\"hello\")\n"), kind
    if kind == "mutated":
        b = list(text)
        for _ in range(r.randint(1, 4)):
            if not b:
                break
            i = r.below(len(b))
            op = r.below(4)
            if op == 0:
                del b[i]
            elif op == 1:
                b.insert(i, r.choice(["{", "}", "(", ")", "\"", "[", "]", ",", "=", "fun ", "let ", "\n", ":", "."]))
            elif op == 2:
                del b[i:i + r.randint(1, 20)]
            else:
                b[i] = r.choice(["{", ")", "\"", " ", "x"])
        return "".join(b), kind
    if kind == "nonascii_safe":
        return text + "// café 中文 \U0001F600\nlet uni = \"naïve \U0001F600 中\"\nlet after_uni = nosuch_thing + 1\n", kind
    if kind == "nonascii_code":
        return text + r.choice(["let x = 1 é\n", "let café = 1\n", " let y = 2\n", "let z = 3 \U0001F600 4\n", "1 − 2\n"]), kind
    return text, kind


def position_for(rng, text):
    r = rng
    lines = text.split("\n")
    k = r.below(10)
    if k == 0:
        return {"line": 10 ** 9, "character": 0}
    if k == 1:
        return {"line": len(lines) + 5, "character": 3}
    ln = r.below(len(lines))
    if k == 2:
        return {"line": ln, "character": 10 ** 6}
    if k == 3:
        return {"line": ln, "character": utf16_len(lines[ln])}
    return {"line": ln, "character": r.below(utf16_len(lines[ln]) + 1)}


def gen_lsp(rng, w_dir):
    """Returns list of messages: dicts {kind, obj | raw, expect}"""
    r = rng
    uris = [f"file://{w_dir}/doc{i}.gdn" for i in range(3)]
    disk_uri = f"file://{w_dir}/ondisk.gdn"
    odd_uris = [f"file://{w_dir}/never_opened.gdn", f"file://{w_dir}/sub", f"file://{w_dir}/notutf8.gdn", "not-a-uri",
                "http://example.com/x.gdn", f"file://{w_dir}/doc%20space.gdn", ""]
    docs = {}
    msgs = []
    next_id = [0]

    def new_id():
        next_id[0] += 1
        k = r.below(12)
        if k == 0:
            return f"s{next_id[0]}"
        if k == 1 and next_id[0] > 2:
            return r.randint(1, next_id[0] - 1)  # repeated id
        return next_id[0]

    def add(obj, **kw):
        msgs.append(dict({"obj": obj}, **kw))

    if r.chance(0.85):
        add({"jsonrpc": "2.0", "id": new_id(), "method": "initialize", "params": {"processId": None, "capabilities": {}, "rootUri": f"file://{w_dir}"}})
        add({"jsonrpc": "2.0", "method": "initialized", "params": {}})
    n = r.randint(3, 30)
    for _ in range(n):
        k = r.weighted([(6, "open"), (6, "change"), (2, "close"), (20, "request"), (2, "unknown_req"), (2, "unknown_notif"),
                        (2, "bad_params"), (1, "response_like"), (1, "cancel"), (1, "notif_with_id"), (1, "req_without_id"),
                        (1, "shutdown"), (1, "not_jsonrpc")])
        if k == "open":
            uri = r.choice(uris)
            text, dk = gen_doc(r.fork("doc", len(msgs)))
            docs[uri] = text
            add({"jsonrpc": "2.0", "method": "textDocument/didOpen",
                 "params": {"textDocument": {"uri": uri, "languageId": "garden", "version": 1, "text": text}}},
                did=uri, text=text, dockind=dk)
        elif k == "change" and docs:
            uri = r.choice(sorted(docs))
            text, dk = gen_doc(r.fork("doc", len(msgs)))
            changes = [{"text": text}]
            if r.chance(0.3):
                changes.insert(0, {"text": "let intermediate = 1\n"})
            docs[uri] = text
            add({"jsonrpc": "2.0", "method": "textDocument/didChange",
                 "params": {"textDocument": {"uri": uri, "version": 2}, "contentChanges": changes}}, did=uri, text=text, dockind=dk)
        elif k == "close" and docs:
            uri = r.choice(sorted(docs))
            docs.pop(uri, None)
            add({"jsonrpc": "2.0", "method": "textDocument/didClose", "params": {"textDocument": {"uri": uri}}}, did=uri, text=None)
        elif k == "request":
            method = r.choice(REQUEST_METHODS)
            uri = r.weighted([(8, r.choice(sorted(docs)) if docs else disk_uri), (2, disk_uri), (2, r.choice(odd_uris)), (1, r.choice(uris))])
            text = docs.get(uri, "fun on_disk(a) { a + 1 }\non_disk(2)\n")
            params = {"textDocument": {"uri": uri}, "position": position_for(r, text)}
            if method == "textDocument/rename":
                params["newName"] = r.choice(["renamed", "x", "", "1bad", "let", "café"])
            if method == "textDocument/codeAction":
                a, b = position_for(r, text), position_for(r, text)
                params["range"] = {"start": a, "end": b}
                params["context"] = {"diagnostics": []}
            if method == "textDocument/formatting":
                params["options"] = {"tabSize": 2, "insertSpaces": True}
            if method == "textDocument/references":
                params["context"] = {"includeDeclaration": r.chance(0.5)}
            add({"jsonrpc": "2.0", "id": new_id(), "method": method, "params": params})
        elif k == "unknown_req":
            add({"jsonrpc": "2.0", "id": new_id(), "method": r.choice(["workspace/symbol", "textDocument/foldingRange", "nosuch/method", "", "$/garden/ping", "$/setTrace",
                                                                               "$/cancelRequest", "$/", "textDocument/didOpenX", "exit2", "Initialize"]), "params": {}})
        elif k == "unknown_notif":
            add({"jsonrpc": "2.0", "method": r.choice(["workspace/didChangeConfiguration", "$/setTrace", "nosuch/notify"]), "params": {}})
        elif k == "bad_params":
            method = r.choice(REQUEST_METHODS + ["textDocument/didOpen", "textDocument/didChange", "textDocument/didClose", "initialize"])
            params = r.choice([None, [], "str", 5, {}, {"textDocument": {}}, {"textDocument": {"uri": 5}},
                               {"textDocument": {"uri": uris[0]}, "position": {"line": "x", "character": None}},
                               {"textDocument": {"uri": uris[0]}, "position": {"line": -1, "character": -1}},
                               {"textDocument": {"uri": uris[0]}, "position": {"line": 1.5, "character": 2.5}},
                               {"textDocument": {"uri": uris[0]}, "contentChanges": []},
                               {"textDocument": {"uri": uris[0]}, "contentChanges": [{"range": {}, "text": 5}]}])
            obj = {"jsonrpc": "2.0", "method": method, "params": params}
            if not method.startswith("textDocument/did"):
                obj["id"] = new_id()
            add(obj, maybe_diag=True)
        elif k == "response_like":
            add({"jsonrpc": "2.0", "id": f"resp{len(msgs)}", "result": None}, no_response=True)
        elif k == "cancel":
            add({"jsonrpc": "2.0", "method": "$/cancelRequest", "params": {"id": r.randint(1, 9)}})
        elif k == "notif_with_id":
            add({"jsonrpc": "2.0", "id": f"either{len(msgs)}", "method": "initialized", "params": {}}, either=True)
        elif k == "req_without_id":
            add({"jsonrpc": "2.0", "method": r.choice(REQUEST_METHODS), "params": {"textDocument": {"uri": uris[0]}, "position": {"line": 0, "character": 0}}})
        elif k == "shutdown":
            add({"jsonrpc": "2.0", "id": new_id(), "method": "shutdown"})
        elif k == "not_jsonrpc":
            add({"id": new_id(), "method": "textDocument/hover"}, parse_error=True)
    end = r.weighted([(4, "shutdown_exit"), (2, "exit_only"), (3, "eof")])
    if end == "shutdown_exit":
        add({"jsonrpc": "2.0", "id": new_id(), "method": "shutdown"})
        add({"jsonrpc": "2.0", "method": "exit"})
    elif end == "exit_only":
        add({"jsonrpc": "2.0", "method": "exit"})
    return msgs


def did_target(meth, params):
    """URI a did* notification refers to if its params carry the fields the protocol requires, else None."""
    try:
        td = params["textDocument"]
        uri = td["uri"]
        if not isinstance(uri, str) or not uri.startswith("file:///"):
            return None
        if meth == "textDocument/didOpen" and not isinstance(td["text"], str):
            return None
        if meth == "textDocument/didChange":
            ch = params["contentChanges"]
            if not isinstance(ch, list) or not ch or not isinstance(ch[-1]["text"], str):
                return None
        return uri
    except Exception:
        return None


def frame(obj):
    body = json.dumps(obj, ensure_ascii=False).encode("utf-8")
    return b"Content-Length: " + str(len(body)).encode() + b"\r\n\r\n" + body


def parse_frames(data):
    out = []
    i = 0
    while True:
        m = re.compile(rb"Content-Length: (\d+)\r\n\r\n").search(data, i)
        if not m:
            break
        n = int(m.group(1))
        body = data[m.end():m.end() + n]
        try:
            out.append(json.loads(body.decode("utf-8")))
        except Exception:
            out.append({"__unparsable__": body[:80].decode(errors="replace")})
        i = m.end() + n
    return out, data[i:]


class C28:
    id = "C28"
    name = "c28"
    engine = "worldsim"
    level = "exploration"
    counts = {"quick": 260, "thorough": 20000}
    wall_caps = {"quick": 170, "thorough": 1500}
    rule = ("case = one seeded LSP message history (initialize / didOpen / didChange / didClose on 3 URIs, every request "
            "method the server names on open, closed, never-opened, on-disk, directory, non-UTF-8 and malformed URIs, "
            "positions in range / at line ends / past the end / huge / negative / fractional, ids as numbers, strings and "
            "repeats, missing and wrong-shaped params, unknown methods, response-like and cancel messages, shutdown/exit "
            "in and out of order; documents from the program generator, mutated, with non-ASCII text inside and outside "
            "strings) delivered to the REAL `garden lsp` process over framed pipes whole, in seeded chunks, with EOF at "
            "an arbitrary byte, with malformed frames (header-level: only liveness afterwards; body-level with a correct "
            "Content-Length: everything else must still be served), or with stdout not drained until the end. Documents may "
            "import files of the scratch world (present, absent, broken, a directory, not UTF-8) and built-in modules. evaluations = child "
            "processes (server runs + `garden check --json` reference runs). distinct_nontrivial = distinct (history hash, "
            "delivery mode) among runs in which at least one document was open while requests were served")
    expected_probes = ["delivery:whole", "delivery:chunked", "delivery:eof_at_byte", "delivery:malformed_frame", "delivery:bad_body", "doc:imports", "doc:parser_edge",
                       "delivery:slow_consumer", "diagnostics_compared", "disk_fallback", "doc:nonascii_code",
                       "doc:mutated", "exit_after_shutdown", "exit_without_shutdown", "eof_without_exit"]
    real_components = ["the real garden binary: `garden lsp` (framing loop, handle_message, every handler, document store, "
                       "disk fallback) and `garden check --json` as the diagnostics reference"]
    stub_components = ["the client and the world: scratch directory (on-disk file, directory, non-UTF-8 file), TMPDIR inside "
                       "the scratch root, pipes with seeded chunking / early EOF / delayed draining"]
    assumptions = ["after a malformed FRAME the byte stream may be desynchronised; from then on only liveness and the exit "
                   "status are required",
                   "a message with `id: null`, or a notification carrying an id, may be answered or not"]

    def make_context(self, rank, root=None):
        d, own = common.make_work_dir(self.id, rank, root)
        return {"dir": d, "n": 0, "own_root": own}

    def close_context(self, ctx):
        shutil.rmtree(ctx.get("own_root") or ctx["dir"], ignore_errors=True)

    def gen_case(self, rng, tier, index):
        delivery = rng.weighted([(4, "whole"), (3, "chunked"), (2, "eof_at_byte"), (2, "malformed_frame"), (2, "bad_body"), (1, "slow_consumer")])
        msgs = gen_lsp(rng.fork("msgs"), "@W@")
        return {"msgs": msgs, "delivery": delivery, "aux": rng.u64(), "token": f"{rng.u64():016x}"}

    # ---- running the server ------------------------------------------
    def serve(self, w, data, delivery, aux, chunks=None):
        env = w.env()
        p = subprocess.Popen([common.BIN, "lsp"], cwd=w.dir, env=env, stdin=subprocess.PIPE, stdout=subprocess.PIPE,
                             stderr=subprocess.PIPE, start_new_session=True)
        out = []
        err = []

        def rd(stream, acc, delay):
            if delay:
                time.sleep(delay)
            while True:
                b = stream.read(65536)
                if not b:
                    break
                acc.append(b)
        t_out = threading.Thread(target=rd, args=(p.stdout, out, 0.3 if delivery == "slow_consumer" else 0))
        t_err = threading.Thread(target=rd, args=(p.stderr, err, 0))
        t_out.start()
        t_err.start()
        try:
            if chunks:
                pos = 0
                for c in chunks:
                    p.stdin.write(data[pos:pos + c])
                    p.stdin.flush()
                    pos += c
                    time.sleep(0.0005)
                if pos < len(data):
                    p.stdin.write(data[pos:])
            else:
                p.stdin.write(data)
            p.stdin.flush()
            p.stdin.close()
        except (BrokenPipeError, OSError):
            pass
        killed = False
        try:
            rc = p.wait(timeout=60)
        except subprocess.TimeoutExpired:
            killed = True
            try:
                os.killpg(p.pid, 9)
            except Exception:
                pass
            rc = p.wait()
        t_out.join()
        t_err.join()
        return {"rc": rc, "stdout": b"".join(out), "stderr": b"".join(err).decode(errors="replace"), "killed": killed}

    def build(self, case, w):
        # explicit workload; "@W@" stands for the scratch world's directory
        msgs = json.loads(json.dumps(case["msgs"]).replace("@W@", w.dir))
        r = Rng(case["aux"])
        frames = [frame(m["obj"]) for m in msgs]
        data = b"".join(frames)
        cut = None
        bad_at = None
        chunks = None
        if case["delivery"] == "chunked":
            chunks = []
            left = len(data)
            while left > 0 and len(chunks) < 40:
                c = r.choice([1, 2, 3, 7, 20, 64, 500, 4096])
                chunks.append(min(c, left))
                left -= chunks[-1]
        elif case["delivery"] == "eof_at_byte":
            cut = r.randint(0, len(data))
            data = data[:cut]
        elif case["delivery"] == "malformed_frame":
            bad_at = r.randint(0, len(frames))
            bad = r.choice([
                b"Content-Length: abc\r\n\r\n{}",
                b"Content-Type: x\r\n\r\n",
                b"garbage without headers\r\n\r\n",
                b"Content-Length: 5\r\n\r\n{\"a\":",
                b"Content-Length: 2\r\nContent-Length: 4\r\n\r\n{}{}",
                b"Content-Length: 10\r\n\r\nnot json!!",
                b"\r\n\r\n",
                b"Content-Length: 99999999999999999999\r\n\r\n",
                b"content-length:2\r\n\r\n{}",
            ])
            data = b"".join(frames[:bad_at]) + bad + b"".join(frames[bad_at:])
        elif case["delivery"] == "bad_body":
            # a frame whose header is fine and whose body is not a JSON-RPC message: the stream stays in
            # step (Content-Length delimits the body), so everything around it must be served as usual
            at = r.randint(0, len(frames))
            body = r.choice([b"{\"jsonrpc\":\"2.0\",\"id\":7,\"method\":\"textDocument/hov", b"{\"a\":", b"", b"not json!!",
                             b"   ", b"\xff\xfe\x00", b"{\"jsonrpc\":\"2.0\",\"method\":\"exit\"", b"[1, 2", b"\"unterminated",
                             b"{\"jsonrpc\": \"2.0\", \"id\": 1, \"method\": \"shutdown\"} trailing", b"nul\x00l"])
            bad = b"Content-Length: " + str(len(body)).encode() + b"\r\n\r\n" + body
            data = b"".join(frames[:at]) + bad + b"".join(frames[at:])
        return msgs, data, chunks, cut, bad_at, frames

    def check_reference(self, w, uri, text):
        """garden check --json on the same text at the same path; returns sorted list of (line, char, eline, echar, sev, msg)."""
        path = uri[len("file://"):]
        path = path.replace("%20", " ")
        with open(path, "w", encoding="utf-8") as f:
            f.write(text)
        p = subprocess.run([common.BIN, "check", "--json", path], cwd=w.dir, env=w.env(), capture_output=True, timeout=60)
        try:
            os.remove(path)
        except Exception:
            pass
        if p.returncode not in (0, 1):
            return None, f"garden check exited {p.returncode}: {p.stderr.decode(errors='replace')[-200:]}"
        lines = text.split("\n")
        out = []
        for ln in p.stdout.decode("utf-8", errors="replace").splitlines():
            ln = ln.strip()
            if not ln:
                continue
            try:
                d = json.loads(ln)
            except Exception:
                return None, f"unparsable check output {ln[:100]!r}"
            l0, l1 = d["line_number"] - 1, d["end_line_number"] - 1
            t0 = lines[l0] if 0 <= l0 < len(lines) else ""
            t1 = lines[l1] if 0 <= l1 < len(lines) else ""
            if d["end_column"] > len(t1.encode("utf-8")) or d["column"] > len(t0.encode("utf-8")):
                # The front end reported a position that does not lie on its own line (a token
                # running over a line end keeps the start line's number): that inconsistency is
                # C23's subject; here only the start, severity and message are compared.
                out.append((l0, byte_col_to_utf16(t0, d["column"]), None, None, 1 if d["severity"] == "error" else 2, d["message"]))
                continue
            out.append((l0, byte_col_to_utf16(t0, d["column"]), l1, byte_col_to_utf16(t1, d["end_column"]),
                        1 if d["severity"] == "error" else 2, d["message"]))
        return sorted(out, key=lambda x: (x[0], x[1], x[4], x[5])), None

    def execute(self, ctx, case):
        ctx["n"] += 1
        root = os.path.join(ctx["dir"], f"run{ctx['n']:06d}")
        os.makedirs(root)
        w = worldsim.World(root, case["token"])
        try:
            w.write("ondisk.gdn", "fun on_disk(a) { a + 1 }\non_disk(2)\n")
            w.write("lib_ok.gdn", "public fun helper(x: Int): Int { x + 1 }\nfun private_helper() { 1 }\n")
            w.write("lib_bad.gdn", "public fun broken(x: Int): String { x }\nfun oops( {\n")
            with open(os.path.join(w.dir, "notutf8.gdn"), "wb") as f:
                f.write(b"let x = \"\xff\xfe\"\n")
            msgs, data, chunks, cut, bad_at, frames = self.build(case, w)
            res = self.serve(w, data, case["delivery"], case["aux"], chunks)
            viol, info = self.judge(case, w, msgs, frames, cut, bad_at, res)
            if not viol and case["delivery"] in ("chunked", "slow_consumer"):
                ref = self.serve(w, data, "whole", case["aux"])
                info["evaluations"] += 1
                norm = lambda b: re.sub(rb"garden-lsp-\d+", b"garden-lsp-PID", b)
                differs = norm(ref["stdout"]) != norm(res["stdout"]) or ref["rc"] != res["rc"]
                if differs:
                    # confirm: a real dependence on the delivery mode shows again, identically
                    res2 = self.serve(w, data, case["delivery"], case["aux"], chunks)
                    ref2 = self.serve(w, data, "whole", case["aux"])
                    info["evaluations"] += 2
                    differs = (norm(res2["stdout"]) == norm(res["stdout"]) and norm(ref2["stdout"]) == norm(ref["stdout"])
                               and res2["rc"] == res["rc"] and ref2["rc"] == ref["rc"])
                    if not differs:
                        info["probes"].append("unstable_delivery_comparison(not reported)")
                if differs:
                    viol.append(("delivery-dependent", f"the response stream differs between {case['delivery']} delivery and whole delivery "
                                                       f"(rc {res['rc']} vs {ref['rc']}, {len(res['stdout'])} vs {len(ref['stdout'])} bytes)"))
            info["history"] = [m["obj"].get("method", "response") for m in msgs]
            return viol, info
        finally:
            w.cleanup()

    def judge(self, case, w, msgs, frames, cut, bad_at, res):
        v = []
        info = {"evaluations": 1, "probes": [], "open_doc_served": False, "nmsgs": len(msgs)}
        # how many messages were delivered completely
        delivered = len(msgs)
        if cut is not None:
            acc = 0
            delivered = 0
            for f in frames:
                acc += len(f)
                if acc <= cut:
                    delivered += 1
        strict_upto = delivered if bad_at is None else min(delivered, bad_at)
        # exit expectation
        exp_rc = 0
        shutdown_seen = False
        exit_at = None
        for i, m in enumerate(msgs[:delivered]):
            meth = m["obj"].get("method")
            if meth == "shutdown":
                shutdown_seen = True
            if meth == "exit":
                exp_rc = 0 if shutdown_seen else 1
                exit_at = i
                break
        if res["killed"]:
            v.append(("hung", f"the server was still running 60 s after its input ended; stderr {res['stderr'][-300:]!r}"))
            return v, info
        if res["rc"] < 0 or res["rc"] == 101:
            v.append(("server-died", f"the server died (rc {res['rc']}): {res['stderr'][-500:]!r}"))
            return v, info
        if bad_at is None or (exit_at is not None and exit_at < bad_at):
            if res["rc"] != exp_rc:
                v.append(("exit-status", f"exit status {res['rc']}, expected {exp_rc} (shutdown seen: {shutdown_seen}, exit at message {exit_at})"))
        info["probes"].append("exit_after_shutdown" if exit_at is not None and exp_rc == 0 else
                              ("exit_without_shutdown" if exit_at is not None else "eof_without_exit"))
        outs, trailing = parse_frames(res["stdout"])
        if trailing.strip():
            v.append(("garbled-output", f"bytes outside frames on stdout: {trailing[:80]!r}"))
        # expected responses among strictly-checked messages
        limit = strict_upto if exit_at is None else min(strict_upto, exit_at)
        expected = []  # (kind, id or uri)
        open_docs = {}
        for i, m in enumerate(msgs[:limit]):
            o = m["obj"]
            meth = o.get("method")
            if m.get("no_response"):
                continue  # a message without a method is a response: nothing is sent back
            if m.get("either"):
                expected.append(("maybe", o.get("id")))
                continue
            if m.get("parse_error"):
                expected.append(("resp", o.get("id")))
                continue
            if meth is None:
                continue
            if "id" in o and o["id"] is not None:
                expected.append(("resp", o["id"]))
                if open_docs and meth.startswith("textDocument/"):
                    info["open_doc_served"] = True
                try:
                    u = o["params"]["textDocument"]["uri"]
                    if isinstance(u, str) and u.endswith("ondisk.gdn"):
                        info["probes"].append("disk_fallback")
                except Exception:
                    pass
            elif meth in ("textDocument/didOpen", "textDocument/didChange", "textDocument/didClose"):
                if m.get("maybe_diag"):
                    # wrong-shaped params: a notification is published exactly when the
                    # protocol-required fields are there after all
                    u = did_target(meth, o.get("params"))
                    if u is not None:
                        expected.append(("diag", u))
                        if meth == "textDocument/didClose":
                            open_docs.pop(u, None)
                        elif meth == "textDocument/didOpen":
                            open_docs[u] = o["params"]["textDocument"]["text"]
                        else:
                            open_docs[u] = o["params"]["contentChanges"][-1]["text"]
                else:
                    expected.append(("diag", m["did"]))
                    if m.get("text") is not None:
                        open_docs[m["did"]] = m["text"]
                        if m.get("dockind"):
                            info["probes"].append("doc:" + m["dockind"])
                    else:
                        open_docs.pop(m["did"], None)
        # match the output stream against the expectation, in order
        j = 0
        last_diag = {}
        for kind, key in expected:
            if kind == "maybe":
                if j < len(outs) and "id" in outs[j] and outs[j].get("id") == key and "method" not in outs[j]:
                    j += 1
                continue
            if kind == "maybe_diag":
                if j < len(outs) and outs[j].get("method") == "textDocument/publishDiagnostics":
                    j += 1
                continue
            if j >= len(outs):
                if bad_at is not None or cut is not None:
                    # output may be cut short only by our own early EOF when the frame was incomplete; complete frames must be answered
                    pass
                v.append(("missing-response", f"no response for {kind} {key!r}: the server sent {len(outs)} messages, "
                                              f"{len(expected)} expected (delivered {delivered} of {len(msgs)} messages)"))
                break
            o = outs[j]
            if kind == "resp":
                if o.get("method") is not None or "id" not in o or o["id"] != key:
                    v.append(("wrong-response", f"expected the response to request id {key!r}, got {json.dumps(o)[:200]}"))
                    break
                if ("result" in o) == ("error" in o):
                    v.append(("malformed-response", f"response must have exactly one of result/error: {json.dumps(o)[:200]}"))
                    break
            else:
                if o.get("method") != "textDocument/publishDiagnostics" or o.get("params", {}).get("uri") != key:
                    v.append(("wrong-response", f"expected publishDiagnostics for {key}, got {json.dumps(o)[:200]}"))
                    break
                last_diag[key] = o["params"].get("diagnostics")
            j += 1
        if not v and bad_at is None and j < len(outs) and (exit_at is None or True):
            extra = outs[j:]
            # nothing else may be sent for strictly-checked input (messages after `exit` are never processed)
            if limit == len(msgs[:delivered]) or exit_at is not None:
                v.append(("unexpected-message", f"{len(extra)} message(s) nobody asked for: {json.dumps(extra[0])[:200]}"))
        # (3) diagnostics vs `garden check --json`
        if not v:
            n_cmp = 0
            for uri, text in sorted(open_docs.items()):
                if n_cmp >= 2 or uri not in last_diag or "// args: " in text or "%20" in uri:
                    continue
                if not text.endswith("\n") or "\r" in text:
                    # `garden check` normalises line ends and appends a newline before checking
                    # (remove_testing_footer); only texts it leaves unchanged are comparable
                    continue
                ref, err = self.check_reference(w, uri, text)
                info["evaluations"] += 1
                if ref is None:
                    if "exited 101" in (err or "") or "exited -" in (err or ""):
                        continue  # the checker itself crashed on this text: C01 territory, nothing to compare with
                    continue
                got = sorted(((d["range"]["start"]["line"], d["range"]["start"]["character"], d["range"]["end"]["line"],
                               d["range"]["end"]["character"], d.get("severity"), d.get("message")) for d in last_diag[uri]),
                             key=lambda x: (x[0], x[1], x[4], x[5]))
                n_cmp += 1
                info["probes"].append("diagnostics_compared")
                # entries whose reference end is None (inconsistent front-end position) match on start/severity/message
                if len(got) == len(ref):
                    got = [g if r[2] is not None else (g[0], g[1], None, None, g[4], g[5]) for g, r in zip(got, ref)]
                if got != ref:
                    only_l = [g for g in got if g not in ref][:3]
                    only_c = [g for g in ref if g not in got][:3]
                    cls = "diagnostics-differ"
                    # Attribution: do the two lists agree once the diagnostics that belong to an
                    # imported file (those `garden check` reports for that file itself) are set aside?
                    foreign = set()
                    for imp in re.findall(r'import "\./([A-Za-z0-9_]+\.gdn)"', text):
                        ip = os.path.join(w.dir, imp)
                        if os.path.isfile(ip):
                            pr = subprocess.run([common.BIN, "check", "--json", ip], cwd=w.dir, env=w.env(), capture_output=True, timeout=60)
                            info["evaluations"] += 1
                            for ln in pr.stdout.decode("utf-8", errors="replace").splitlines():
                                try:
                                    foreign.add(json.loads(ln)["message"])
                                except Exception:
                                    pass
                    if foreign and [g for g in got if g[5] not in foreign] == [g for g in ref if g[5] not in foreign] and \
                            sorted((g[4], g[5]) for g in got) == sorted((g[4], g[5]) for g in ref):
                        cls = "diagnostics-differ:imported-file-positions"
                    v.append((cls, f"published diagnostics for {os.path.basename(uri)} differ from `garden check --json`: "
                                   f"only in LSP {only_l}, only in check {only_c}"))
                    break
        return v, info

    def run_case(self, ctx, case):
        stats = {}
        out = {"evaluations": 0, "nontrivial": [], "violations": [], "stats": stats, "sim_steps": 0, "sample": None}

        def bump(k, n=1):
            stats[k] = stats.get(k, 0) + n

        viol, info = self.execute(ctx, case)
        out["evaluations"] = info["evaluations"]
        bump("probe:delivery:" + case["delivery"])
        bump("fault:delivery_" + case["delivery"])
        bump("messages", info.get("nmsgs", 0))
        for p in info["probes"]:
            bump("probe:" + p)
        if info["open_doc_served"]:
            out["nontrivial"].append(mix(common.stable_hash(case["msgs"]), case["delivery"]))
        for cls, detail in viol[:1]:
            key = f"C28:{cls}"
            if cls == "server-died":
                m = re.search(r"panicked at ([^:\n]+):(\d+)", detail)
                key += ":" + (m.group(1).replace("/repo/", "") if m else "unknown")
            out["violations"].append({"class": cls, "key": key, "detail": f"[delivery {case['delivery']}] {detail}",
                                      "replay": {"case": case}})
        out["sample"] = {"history": info.get("history", [])[:25], "delivery": case["delivery"]}
        return out

    def replay(self, ctx, rp):
        r = self.run_case(ctx, rp["case"])
        return r["violations"][:1]

    def minimise(self, ctx, v):
        key = v["key"]
        case = json.loads(json.dumps(v["replay"]["case"]))
        budget = [120]

        def fails(c):
            budget[0] -= 1
            got = self.run_case(ctx, c)["violations"]
            return bool(got) and got[0]["key"] == key

        if case["delivery"] != "whole":
            cand = dict(case, delivery="whole")
            if fails(cand):
                case = cand
        i = len(case["msgs"]) - 1
        while i >= 0 and budget[0] > 0 and len(case["msgs"]) > 1:
            cand = json.loads(json.dumps(case))
            del cand["msgs"][i]
            if fails(cand):
                case = cand
            i -= 1
        a = self.run_case(ctx, case)["violations"]
        b = self.run_case(ctx, case)["violations"]
        if a and b and a[0]["key"] == key and b[0]["key"] == key:
            nv = dict(v)
            nv["replay"] = {"case": case}
            nv["detail"] = a[0]["detail"] + " | minimised history: " + json.dumps([m["obj"] for m in case["msgs"]])[:1200]
            return nv
        return v


PROP = C28()
