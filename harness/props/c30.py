"""C30 - nREPL delivers one final `done` per request, after all its output."""
import nrepl_model
from props.nrepl_base import ThreadsimProp


class C30(ThreadsimProp):
    id = "C30"
    name = "c30"
    bias = {"printer": 7, "followup": 3, "interrupt": 2, "close": 1, "longloop": 1}
    own_classes = {"done-count", "message-after-done", "status-inconsistent", "stdout-garbled", "stdout-order",
                   "stderr-order", "output-incomplete", "output-too-much", "output-lost", "value-wrong",
                   "value-after-interrupt", "error-missing", "isolation", "done-order", "deadlock", "step-limit",
                   "server-thread-panicked", "model-desync", "request-lost"}
    rule = ("case = one seeded client workload (1..3 sessions, 4..14 requests: evals that print self-numbering tokens to "
            "stdout/stderr, follow-up evals reading the print counters, definers, cross-session readers, throwers, parse "
            "errors, finite long loops, load-file, completions, lookup, describe, ls-sessions, interrupt, close, unknown/"
            "missing ops and sessions, requests without id, streamed/quota-limited values, late clones; optional SIGINT "
            "through the watchdog, client disconnect, EOF mid-message, writer death) x 4 schedules (RandomScheduler, 25% "
            "PCT depth 1..4), with per-run timer-expiry probability and codec fault rates. evaluations = simulated server "
            "runs. distinct_nontrivial = distinct (workload, interleaving signature) pairs, the signature being the ordered "
            "sequence of wire messages, flag events (I/R) and their positions relative to evaluation checks")
    expected_probes = ["eval_interrupted", "output_streamed_in_several_chunks", "flag_set_while_some_eval_running",
                       "watchdog_broadcast", "close_with_flag_store"]

    def checker(self, run):
        return nrepl_model.check_c30(run) + nrepl_model.check_c31(run)


PROP = C30()
