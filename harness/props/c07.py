"""C07 - resuming after a runtime error reproduces the same error.

The fault is the failed step itself; the operation under test is the retry
(`:resume`), alone and combined with interrupts that land inside or between
the retries."""
import json

import common
import sites
from common import Rng, mix, run_req, final_response, printed, outcome
from props.base import SessimProp

RESUME = run_req(":resume")
VARIANTS = ["plain", "interrupt_in_resume", "idle_interrupt_between"]


def frame_of(line):
    if line is None:
        return None
    k = line.get("kind", {})
    for v in k.values():
        if isinstance(v, dict) and "stack_frame_name" in v:
            return v["stack_frame_name"]
    return None


class C07(SessimProp):
    id = "C07"
    name = "c07"
    rule = ("case = one error site (every built-in function and method declared in src/__*.gdn x {wrong type at argument j, "
            "arity-1, arity+1, wrong receiver}, every binary operator x wrong operand side, division/modulo by zero, and "
            "38 language-level errors) x one placement (toplevel, operand, argument, call depth 1 and 3, loop body, if "
            "branch, match arm, closure, method, block) x 3 histories (plain :resume x3; interrupt inside the first "
            ":resume; interrupt while idle between resumes). evaluations = simulated sessions. distinct_nontrivial = "
            "distinct (site, placement, history) in which the site really stopped with an error and at least one "
            ":resume was compared with it")
    expected_probes = ["placement:fun3", "placement:loop", "placement:matcharm", "placement:closure", "site:builtin-fun",
                       "site:builtin-method", "site:operator", "site:language"]

    def __init__(self):
        self._sites = None

    @property
    def sites(self):
        if self._sites is None:
            self._sites = sites.all_sites()
        return self._sites

    @property
    def counts(self):
        n = len(self.sites)
        return {"quick": n * 5, "thorough": n * len(sites.PLACEMENTS)}

    wall_caps = {"quick": 200, "thorough": 1200}

    def gen_case(self, rng, tier, index):
        n = len(self.sites)
        key, imports, expr = self.sites[index % n]
        if tier == "quick":
            # five placements per site: inside a function, at the toplevel (the two kinds of frame differ in
            # what else lies on their value stacks, i.e. in how soon a value that is not pushed back is missed)
            # and three more drawn from the seed
            j = index // n
            if j == 0:
                placement = "fun1"
            elif j == 1:
                placement = "toplevel"
            else:
                placement = rng.choice([p for p in sites.PLACEMENTS if p not in ("fun1", "toplevel")])
        else:
            placement = sites.PLACEMENTS[(index // n) % len(sites.PLACEMENTS)]
        return {"site": key, "imports": imports, "expr": expr, "placement": placement}

    def scenario(self, case, variant):
        pdefs, top = sites.place(case["expr"], case["placement"])
        defs = "\n".join(x for x in [case["imports"], sites.LANG_DEFS, pdefs] if x)
        steps = [{"op": "send", "raw": run_req(defs)},
                 {"op": "send", "raw": run_req(top)}]
        if variant == "plain":
            steps += [{"op": "send", "raw": RESUME} for _ in range(3)]
        elif variant == "interrupt_in_resume":
            steps += [{"op": "send", "raw": RESUME, "faults": [{"at": 1, "kind": "interrupt"}]},
                      {"op": "send", "raw": RESUME}, {"op": "send", "raw": RESUME}]
        elif variant == "idle_interrupt_between":
            steps += [{"op": "send", "raw": RESUME}, {"op": "idle_interrupt"},
                      {"op": "send", "raw": RESUME}, {"op": "send", "raw": RESUME}, {"op": "send", "raw": RESUME}]
        return {"steps": steps, "step_budget": 20000}

    def judge(self, case, variant, res):
        """Returns (status, violation or None).  status in: ok, no-error, panic-at-site, died."""
        if res.get("executor_died"):
            return "died", ("simulator-process-died", json.dumps(res)[:300])
        st = res["steps"]
        if len(st) < 2:
            return "panic-at-site", None
        r0 = st[1]["rounds"][0]
        if r0.get("panic") or (res["dead"] and len(st) == 2):
            return "panic-at-site", None
        o0 = outcome(final_response(r0))
        f0 = frame_of(final_response(r0))
        if o0[0] != "err" or f0 is None:
            # no runtime stop (a value, or a parse error, which has no frame)
            return "no-error", None
        # An interrupt delivered inside a resume (at one of its steps) must stop
        # that resume.  One delivered while idle stays pending until an
        # evaluation next crosses a step boundary: the next resume reports
        # `Interrupted` - unless the failed step is re-run without any step
        # boundary (an error raised when a frame returns), in which case the
        # original error is the right answer and the interrupt stays pending.
        resumes = []  # (round, "must" | "may" | None)
        pending = False
        for s in st[2:]:
            if s["op"] == "idle_interrupt":
                pending = True
                continue
            rd = s["rounds"][0]
            mode = "must" if rd["fired"] else ("may" if pending else None)
            resumes.append((rd, mode))
            if outcome(final_response(rd))[0] == "interrupted":
                pending = False
        ref = None
        for i, (rd, mode) in enumerate(resumes):
            if rd.get("panic"):
                return "ok", ("panic-on-resume", f"resume #{i + 1} killed the eval thread: {rd['panic']}")
            o = outcome(final_response(rd))
            if mode == "must" and o[0] != "interrupted":
                return "ok", ("interrupt-not-reported",
                              f"resume #{i + 1} was interrupted at one of its steps but answered {o}")
            if o[0] == "interrupted":
                if mode is None:
                    return "ok", ("spurious-interrupt", f"resume #{i + 1} reported an interrupt nobody sent")
                continue
            if o[0] != "err":
                return "ok", ("resume-did-not-fail", f"resume #{i + 1} answered {o} instead of the error {o0}")
            same_msg = (o[1] == o0[1]) or o0[1] == "Assertion failed"
            if not same_msg or o[2:] != o0[2:]:
                return "ok", ("resume-error-differs",
                              f"first stop: {o0}; resume #{i + 1}: {o}")
            f = frame_of(final_response(rd))
            if f != f0:
                return "ok", ("resume-frame-differs", f"first stop in {f0!r}; resume #{i + 1} in {f!r}")
            if printed(rd):
                return "ok", ("resume-repeats-output", f"resume #{i + 1} printed {printed(rd)!r}")
            sig = (o, rd["round_hash"], rd["steps"], json.dumps(rd["first_step"]))
            if ref is None:
                ref = sig
            elif sig != ref:
                return "ok", ("resume-not-idempotent",
                              f"resume #{i + 1} executed {sig[1:]} / {sig[0]} but an earlier resume executed {ref[1:]} / {ref[0]}")
            if len(common.worker_responses(rd)) != 1:
                return "ok", ("response-count", f"{len(common.worker_responses(rd))} responses to one :resume")
        if res["dead"]:
            return "ok", ("panic-on-resume", "session died")
        return "ok", None

    def run_case(self, ctx, case):
        ex = ctx["ex"]
        stats = {}
        out = {"evaluations": 0, "nontrivial": [], "violations": [], "stats": stats, "sim_steps": 0, "sample": None}

        def bump(k, n=1):
            stats[k] = stats.get(k, 0) + n

        for variant in VARIANTS:
            res = ex.run(self.scenario(case, variant))
            out["evaluations"] += 1
            status, v = self.judge(case, variant, res)
            bump("status:" + status)
            if status == "panic-at-site":
                bump("panic_at_error_site(C02/C09 territory):" + case["site"])
            if not res.get("executor_died"):
                for s in res["steps"]:
                    for rd in s["rounds"]:
                        out["sim_steps"] += rd["steps"]
                        for f in rd["fired"]:
                            bump("fault:interrupt_in_resume")
                    if s["op"] == "idle_interrupt":
                        bump("fault:interrupt_while_idle")
            if status == "ok":
                bump("fault:runtime_error_then_resume")
                bump("probe:placement:" + case["placement"])
                kind = case["site"].split(":")[0]
                bump("probe:site:" + {"fun": "builtin-fun", "method": "builtin-method", "op": "operator",
                                      "lang": "language"}[kind])
                out["nontrivial"].append(mix(case["site"], case["placement"], variant))
            if v is not None:
                cls, detail = v
                out["violations"].append({
                    "class": cls,
                    "key": f"C07:{case['site']}:{cls}",
                    "detail": f"[{case['expr']} placed at {case['placement']}, history {variant}] {detail}",
                    "replay": {"case": case, "variant": variant},
                })
                break
        if out["sample"] is None:
            sc = self.scenario(case, "interrupt_in_resume")
            out["sample"] = {"site": case["site"], "placement": case["placement"],
                             "requests": [s.get("raw", s["op"]) for s in sc["steps"]],
                             "faults": [s.get("faults") for s in sc["steps"]]}
        return out

    def replay(self, ctx, rp):
        res = ctx["ex"].run(self.scenario(rp["case"], rp["variant"]))
        status, v = self.judge(rp["case"], rp["variant"], res)
        if v is None:
            return []
        cls, detail = v
        return [{"class": cls, "key": f"C07:{rp['case']['site']}:{cls}", "detail": detail, "replay": rp}]

    def minimise(self, ctx, v):
        """Prefer the simplest placement and history that still shows the same class."""
        rp = v["replay"]
        for placement in ["toplevel", "block", "operand"]:
            for variant in ["plain", rp["variant"]]:
                cand = {"case": dict(rp["case"], placement=placement), "variant": variant}
                got = self.replay(ctx, cand)
                if got and got[0]["class"] == v["class"]:
                    again = self.replay(ctx, cand)
                    if again and again[0]["detail"] == got[0]["detail"]:
                        nv = dict(v)
                        nv["replay"] = cand
                        nv["detail"] = f"[{cand['case']['expr']} at {placement}, history {variant}] {got[0]['detail']}"
                        return nv
        return v


PROP = C07()
