"""C31 - nREPL interrupt stops the running eval and no other."""
import nrepl_model
from props.nrepl_base import ThreadsimProp


class C31(ThreadsimProp):
    id = "C31"
    name = "c31"
    bias = {"printer": 4, "followup": 1, "interrupt": 9, "close": 3, "longloop": 6}
    own_classes = {"interrupt-lost", "spurious-interrupt", "not-prompt", "flag-model-mismatch", "model-desync", "request-lost",
                   "interrupt-ack", "deadlock", "step-limit", "server-thread-panicked"}
    rule = ("case = one seeded client workload biased towards interrupts, closes and finite long-running evals x 4 "
            "schedules; every flag write (interrupt, close, disconnect, watchdog broadcast), every worker dequeue+reset and "
            "every per-step flag check is recorded in one total order, and a reference model of the per-session flag "
            "replayed over that order must agree with what each eval really did: it ends `interrupted` at its first check "
            "after a flag write that followed its dequeue, iff there is one. evaluations = simulated server runs. "
            "distinct_nontrivial = distinct (workload, interleaving signature) pairs")
    expected_probes = ["eval_interrupted", "flag_set_while_some_eval_running", "watchdog_broadcast", "close_with_flag_store"]

    def checker(self, run):
        return nrepl_model.check_c31(run) + nrepl_model.check_c30(run)


PROP = C31()
