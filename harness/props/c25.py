"""C25 - sandboxed runs always finish within their step budget (worldsim).

Bounded liveness: the simulated clock is the evaluator's tick counter, the
bound is the sandbox's fixed limits (100 000 ticks, 1 000 frames)."""
import json
import os
import resource
import shutil
import tempfile

import common
import worldsim
from common import Rng, mix
from gen import ProgGen, Scope

TICK_LIMIT = 100_000
AS_CAP = 1536 << 20  # address-space cap of a sandboxed child
_CAL = {}


def families(r):
    """(family, body statements, terminates?)"""
    n = r.randint(2000, 9000)
    d = r.randint(1, 4)
    fams = [
        ("while-true-empty", "while True { }", False),
        ("while-true-print", "let i = 0 while True { i += 1 println(string_repr(i)) }", False),
        ("while-true-eprint", "while True { eprintln(\"e\") }", False),
        ("for-in-growing-list", "let l = [1] for x in l { l = l.append(x) } while True { l = l.append(1) }", False),
        ("self-recursion", "fun f(n) { f(n + 1) } f(0)", False),
        ("self-recursion-nontail", "fun f(n) { 1 + f(n + 1) } f(0)", False),
        ("mutual-recursion", "fun ping(n) { pong(n + 1) } fun pong(n) { ping(n + 1) } ping(0)", False),
        ("closure-recursion", "fun mk() { fun(x) { mk()(x + 1) } } mk()(0)", False),
        ("method-recursion", "struct R { n: Int } method again(this: R) { R{ n: this.n + 1 }.again() } R{ n: 0 }.again()", False),
        ("recursion-in-loop", "fun g(n) { if n > 0 { g(n - 1) } else { 0 } } while True { g(50) }", False),
        ("nest-list-then-print", f"let v = [] let i = 0 while i < {n} {{ v = [v] i += 1 }} println(string_repr(v)) 1", None),
        ("nest-option-then-compare", f"let v = Some(1) let w = Some(1) let i = 0 while i < {n // 2} {{ v = Some(v) w = Some(w) i += 1 }} v == w", None),
        ("nest-tuple-then-drop", f"let v = (1, 2) let i = 0 while i < {n} {{ v = (v, i) i += 1 }} v = (0, 0) 2", None),
        ("nest-struct-then-value", f"struct B {{ inner: List<B> }} let v = B{{ inner: [] }} let i = 0 while i < {n} {{ v = B{{ inner: [v] }} i += 1 }} v", None),
        ("nest-dict-then-repr", f"let v = Dict[\"k\" => 1] let i = 0 let w = [] while i < {n} {{ w = [w] i += 1 }} string_repr(Dict[\"k\" => w]).len()", None),
        ("nest-forever", "let v = [] while True { v = [v] }", False),
        ("nest-result-forever", "let v = Ok(1) while True { v = Ok(v) }", False),
        ("deep-closure-chain", f"let k = fun(x) {{ x }} let i = 0 while i < {n // 3} {{ let prev = k k = fun(x) {{ prev(x) + 1 }} i += 1 }} k(0)", None),
        ("blocking-read_line", "let l = read_line() println(string_repr(l)) while True { }", False),
        ("blocking-read_line-loop", "while True { let l = read_line() }", False),
        ("blocking-shell-sleep", "import \"__shell.gdn\" as shell\nshell::run(\"sleep\", [\"1000\"]) while True { }", False),
        ("terminating", f"let s = 0 let i = 0 while i < {r.randint(1, 500)} {{ s += i i += 1 }} s", True),
        ("string-repr-loop", f"let s = \"\" let i = 0 while i < {r.randint(100, 3000)} {{ s = string_repr(i) i += 1 }} s", None),
        ("nested-loops", f"let c = 0 for a in [1, 2, 3, 4, 5, 6, 7, 8, 9, 10] {{ for b in [1, 2, 3, 4, 5, 6, 7, 8, 9, 10] {{ let i = 0 while i < {r.randint(10, 400)} {{ i += 1 c += 1 }} }} }} c", None),
        (f"recursion-depth-{d}", f"fun deep(n) {{ if n == 0 {{ 0 }} else {{ 1 + deep(n - 1) }} }} deep({r.choice([10, 900, 998, 999, 1000, 1001, 1500])})", None),
    ]
    # Source text that nests deeply: a value-nesting LITERAL, parentheses, closures, else-if chains,
    # operator chains (the nesting is in the program text, not built up at run time)
    dn = r.choice([300, 1500, 4000])
    fams += [
        ("deep-source-list-literal", "let v = " + "[" * dn + "]" * dn + " 1", None),
        ("deep-source-parens", "let v = " + "(" * dn + "1" + ")" * dn + " v", None),
        ("deep-source-closures", "let f = " + "fun() { " * dn + "1" + " }" * dn + " 1", None),
        ("deep-source-else-if", "let x = 5 if x == 0 { 0 }" + "".join(f" else if x == {k} {{ {k} }}" for k in range(10, 10 + dn * 3)) + " else { 9 }", None),
        ("deep-source-operator-chain", "let s = 0" + " + 1" * (dn * 3) + " s", None),
    ]
    # Never-ending loops whose bodies come from the general program generator: arbitrary
    # control flow (continue / break out of the inner loop, nested loops later in the body,
    # calls, closures, matches) must still be cut off by the step budget.
    for j in range(3):
        g = ProgGen(r.fork("genbody", j), size=8, tag=f"z{j}", allow_throw=False)
        defs = g.gen_defs()
        sc = Scope()
        c = f"gz{j}"
        sc.add("I", "i" + g.tag + "0")  # read-only by the generator's convention
        body = [f"i{g.tag}0 += 1"]
        for _ in range(r.randint(2, 5)):
            k = r.below(4)
            if k == 0:
                body.append(f"if {g.bool_expr(sc, 1)} {{ continue }}")
            elif k == 1:
                body.append(f"if {g.bool_expr(sc, 1)} {{ break }}")
            else:
                g.budget = 4
                g.loop_depth = 1
                body.append(g.stmt(sc))
        if r.chance(0.7):
            # a `continue` (or `break`) that really executes, with a loop statement later in the same
            # body that has not started yet when it does
            kw = r.choice(["continue", "continue", "break"])
            body.insert(r.randint(1, len(body)), f"if i{g.tag}0 % 2 == 0 {{ {kw} }}")
            body.append(r.choice([f"for y{g.tag} in [1, 2] {{ {g.print_stmt(sc)} }}",
                                  f"let w{g.tag} = 0 while w{g.tag} < 2 {{ w{g.tag} += 1 }}"]))
        src = "\n".join(defs) + f"\nlet i{g.tag}0 = 0 while True {{ while True {{ {' '.join(body)} }} }}"
        fams.append((f"genbody-{j}", src, False))
    return fams


class C25:
    id = "C25"
    name = "c25"
    engine = "worldsim"
    level = "exploration"
    counts = {"quick": 160, "thorough": 6000}
    nproc = 8  # children may use up to the address-space cap each
    # CPU time is the one noisy observable (already confirmed by a second run inside the case): a
    # violation of this class that does not show again on replay is measurement noise, not a harness error
    noisy_classes = {"cpu-bound-exceeded"}
    wall_caps = {"quick": 170, "thorough": 1500}
    rule = ("case = one generated non-terminating or resource-hungry program (33 families: infinite loops with and without "
            "output, self / mutual / closure / method recursion, value nesting by one level per iteration followed by "
            "print / compare / drop, closure chains, blocking built-ins, boundary recursion depths; seeded sizes), run by "
            "the REAL binary as `playground-run`, or as 1..4 test bodies under `sandboxed-test`, with stdin loaded / "
            "stalled / closed and the step monitor on (VERIF_FAULTS=monitor). evaluations = child processes. "
            "distinct_nontrivial = distinct (family, parameters, mode, stdin) among runs that ended in a resource-limit "
            "error or sandbox refusal (i.e. really hit a bound)")
    expected_probes = ["hit_tick_limit", "hit_stack_limit", "refused_blocking_builtin", "finished_with_value",
                       "mode:playground-run", "mode:sandboxed-test", "stdin:stalled"]
    real_components = ["the real garden binary (playground-run / sandboxed-test); hook H2 in monitor mode only reads the "
                       "tick counter and stack depth and appends to a log file"]
    stub_components = ["the world (scratch directory, stdin pipe), resource caps (RLIMIT_CPU, RLIMIT_AS) as a last resort"]
    assumptions = ["the bound is stated in evaluator steps (ticks) and CPU time calibrated on this machine at check start "
                   "(100x the CPU time of `while True { }` hitting the tick limit, at least 10 s; confirmed by a second run), never in wall-clock time",
                   "children run under a 1.5 GB address-space cap; dying of a failed allocation under that cap counts as a crash",
                   "programs whose memory use is exponential in the tick count (string / list doubling) are deliberately "
                   "not generated: the property names loops, recursion, blocking calls and deep nesting, not memory quotas"]

    def make_context(self, rank, root=None):
        d, own = common.make_work_dir(self.id, rank, root)
        return {"dir": d, "n": 0, "own_root": own}

    def close_context(self, ctx):
        shutil.rmtree(ctx.get("own_root") or ctx["dir"], ignore_errors=True)

    def gen_case(self, rng, tier, index):
        r = rng
        fams = families(r.fork("fam"))
        mode = r.weighted([(3, "playground-run"), (2, "sandboxed-test")])
        if mode == "playground-run":
            progs = [fams[index % len(fams)]]
        else:
            k = r.randint(1, 4)
            progs = [fams[(index + j * 7) % len(fams)] for j in range(k)]
        return {"mode": mode, "progs": [list(p) for p in progs], "stdin": r.choice(["loaded", "stalled", "closed"]),
                "token": f"{r.u64():016x}"}

    def build(self, case):
        if case["mode"] == "playground-run":
            return case["progs"][0][1] + "\n"
        src = []
        defs = []
        for i, (fam, body, term) in enumerate(case["progs"]):
            # definitions must stay at toplevel; rename them per test
            body = body.replace("fun f(", f"fun f{i}(").replace(" f(", f" f{i}(").replace("fun g(", f"fun g{i}(").replace(" g(", f" g{i}(")
            body = body.replace("ping", f"ping{i}").replace("pong", f"pong{i}").replace("mk()", f"mk{i}()").replace("fun mk(", f"fun mk{i}(")
            body = body.replace("struct R ", f"struct R{i} ").replace("R{", f"R{i}{{").replace("this: R)", f"this: R{i})")
            body = body.replace("struct B ", f"struct B{i} ").replace("B{", f"B{i}{{").replace("List<B>", f"List<B{i}>")
            body = body.replace("deep(", f"deep{i}(")
            parts = []
            rest = body
            # split leading definitions (fun/struct/method/import ... up to matching brace)
            while True:
                rest = rest.lstrip()
                if rest.startswith("import "):
                    nl = rest.index("\n")
                    defs.append(rest[:nl])
                    rest = rest[nl + 1:]
                    continue
                if rest.startswith(("fun ", "struct ", "method ", "enum ")) and not rest.startswith("fun("):
                    depth = 0
                    for j, ch in enumerate(rest):
                        if ch == "{":
                            depth += 1
                        elif ch == "}":
                            depth -= 1
                            if depth == 0:
                                defs.append(rest[:j + 1])
                                rest = rest[j + 1:]
                                break
                    continue
                break
            src.append(f"test t{i} {{\n  {rest}\n}}")
        # (a trailing comment gives an offset that lies in no test, so every test runs)
        return "\n".join(defs + src) + "\n// end of file\n"

    def execute(self, ctx, case):
        ctx["n"] += 1
        root = os.path.join(ctx["dir"], f"run{ctx['n']:06d}")
        os.makedirs(root)
        w = worldsim.World(root, case["token"])
        try:
            src = self.build(case)
            w.write("prog.gdn", src)
            log = os.path.join(root, "monitor.log")
            env = w.env({"VERIF_FAULTS": "monitor", "VERIF_FAULTS_LOG": log})
            argv = [common.BIN, case["mode"], "prog.gdn"]
            if case["mode"] == "sandboxed-test":
                argv.append(str(len(src.encode()) - 4))
            ru0 = resource.getrusage(resource.RUSAGE_CHILDREN)
            res = worldsim.run_child(argv, w.dir, env, stdin_mode=case["stdin"], stdin_text=w.stdin_text,
                                     cpu_s=120, wall_s=240, as_bytes=AS_CAP)
            ru1 = resource.getrusage(resource.RUSAGE_CHILDREN)
            res["cpu"] = (ru1.ru_utime + ru1.ru_stime) - (ru0.ru_utime + ru0.ru_stime)
            res["monitor"] = open(log).read().splitlines() if os.path.exists(log) else []
            res["src"] = src
            res["stdin_token"] = w.stdin_text
            return res
        finally:
            w.cleanup()

    def cpu_bound(self, ctx):
        if "bound" not in _CAL:
            case = {"mode": "playground-run", "progs": [["cal", "while True { }", False]], "stdin": "closed", "token": "cal"}
            best = None
            for _ in range(3):
                r = self.execute(ctx, case)
                best = r["cpu"] if best is None else min(best, r["cpu"])
            _CAL["bound"] = max(10.0, 100 * best)
            _CAL["baseline"] = best
        return _CAL["bound"]

    def judge(self, ctx, case, res):
        v = []
        bound = self.cpu_bound(ctx)
        if res["blocked_on_stdin"]:
            v.append(("blocked-on-stdin", "the sandboxed run sleeps in read(0) and would never finish"))
            return "blocked", v
        if res["killed"]:
            v.append(("did-not-finish", f"still running after {res['wall']:.0f}s wall / cpu {res['cpu']:.1f}s; killed by the harness"))
            return "killed", v
        if res["signal"] is not None:
            v.append(("crashed", f"the run died by signal {res['signal']} (stack overflow / abort): stderr {res['stderr'][-300:]!r}"))
            return "signal", v
        if res["rc"] == 101:
            v.append(("crashed", f"the interpreter panicked: {res['stderr'][-400:]!r}"))
            return "panic", v
        if res["cpu"] > bound:
            v.append(("cpu-bound-exceeded", f"used {res['cpu']:.2f}s CPU; bound {bound:.2f}s (100x a tick-limited `while True {{ }}`)"))
        viol_lines = [l for l in res["monitor"] if l.startswith("MONITOR-VIOLATION")]
        if viol_lines:
            v.append(("step-invariant", f"{viol_lines[:3]}"))
        steps = max([int(l.split()[1]) for l in res["monitor"] if l.startswith("steps ")] or [0])
        ntests = len(case["progs"]) if case["mode"] == "sandboxed-test" else 1
        if steps > TICK_LIMIT + ntests + 1000:
            v.append(("step-budget-exceeded", f"{steps} evaluation steps were executed; the sandbox budget is {TICK_LIMIT}"))
        status = "other"
        if case["mode"] == "playground-run":
            final = None
            for l in res["stdout"].splitlines():
                try:
                    d = json.loads(l)
                except Exception:
                    continue
                if "error" in d or "value" in d:
                    final = d
            if final is None:
                v.append(("no-result", f"no final JSON result: stdout tail {res['stdout'][-200:]!r} stderr {res['stderr'][-200:]!r}"))
            else:
                err = final.get("error")
                if err and "tick limit" in err:
                    status = "tick"
                elif err and "stack limit" in err:
                    status = "stack"
                elif err and "sandboxed mode" in err:
                    status = "refused"
                elif err is None:
                    status = "value"
                else:
                    status = "error"
                if case["progs"][0][2] is False and status not in ("tick", "stack", "refused"):
                    v.append(("wrong-outcome", f"a non-terminating program ended with {final}"))
                if case["progs"][0][2] is True and status != "value":
                    v.append(("wrong-outcome", f"a small terminating program ended with {final}"))
        else:
            try:
                d = json.loads(res["stdout"].strip().splitlines()[-1])
                tests = d["tests"]
            except Exception:
                d = None
                v.append(("no-result", f"no JSON summary: {res['stdout'][-200:]!r} {res['stderr'][-200:]!r}"))
            if d is not None:
                if len(tests) != len(case["progs"]):
                    v.append(("tests-missing", f"{len(tests)} verdicts for {len(case['progs'])} tests: {d}"))
                descs = [t.get("description") for t in tests.values()]
                if any(x == "exceeded resource limit" for x in descs):
                    status = "tick"
                elif any(x == "sandboxed" for x in descs):
                    status = "refused"
                else:
                    status = "value"
                for i, (fam, body, term) in enumerate(case["progs"]):
                    t = tests.get(f"t{i}")
                    if t is not None and term is False and t.get("description") not in ("exceeded resource limit", "sandboxed"):
                        v.append(("wrong-outcome", f"test t{i} ({fam}) never terminates but was reported {t}"))
        if res["stdin_token"] in res["stdout"]:
            v.append(("stdin-read", "the waiting stdin line was read"))
        return status, v

    def run_case(self, ctx, case):
        stats = {}
        out = {"evaluations": 1, "nontrivial": [], "violations": [], "stats": stats, "sim_steps": 0, "sample": None}

        def bump(k, n=1):
            stats[k] = stats.get(k, 0) + n

        res = self.execute(ctx, case)
        status, viol = self.judge(ctx, case, res)
        steps = max([int(l.split()[1]) for l in res["monitor"] if l.startswith("steps ")] or [0])
        out["sim_steps"] = steps
        bump("probe:mode:" + case["mode"])
        bump("probe:stdin:" + case["stdin"])
        bump("fault:stdin_" + case["stdin"])
        bump({"tick": "probe:hit_tick_limit", "stack": "probe:hit_stack_limit", "refused": "probe:refused_blocking_builtin",
              "value": "probe:finished_with_value"}.get(status, "status:" + status))
        for fam, _, _ in case["progs"]:
            bump("family:" + fam.split("-depth-")[0])
        if status in ("tick", "stack", "refused"):
            bump("fault:resource_limit_hit")
            out["nontrivial"].append(mix(common.stable_hash(case["progs"]), case["mode"], case["stdin"]))
        if viol and viol[0][0] == "cpu-bound-exceeded":
            # CPU time is the one noisy observable: confirm with a second run
            res2 = self.execute(ctx, case)
            _, viol2 = self.judge(ctx, case, res2)
            if not (viol2 and viol2[0][0] == "cpu-bound-exceeded"):
                viol = viol[1:]
        for cls, detail in viol[:1]:
            out["violations"].append({"class": cls, "key": self.key(case, cls),
                                      "detail": f"[{case['mode']} {[p[0] for p in case['progs']]} stdin {case['stdin']}] {detail}",
                                      "replay": {"case": case}})
        out["sample"] = {"mode": case["mode"], "program": res["src"][:600], "stdin": case["stdin"], "status": status,
                         "cpu_s": round(res["cpu"], 3), "steps_at_least": steps}
        return out

    @staticmethod
    def key(case, cls):
        fams = sorted(set(p[0].split("-depth-")[0] for p in case["progs"]))
        if case["mode"] == "playground-run":
            return f"C25:{cls}:{fams[0]}"
        # The family named first is the one the class is attributed to: a file whose source nests too
        # deeply dies while it is parsed, whatever else it contains; excessive memory or CPU time comes
        # from the value-nesting bodies.
        ds = [f for f in fams if f.startswith("deep-source")]
        ne = [f for f in fams if f.startswith("nest-")]
        dc = [f for f in fams if f.startswith("deep-closure")]
        nest = (ds + ne + dc) if cls == "crashed" else (ne + dc + ds)
        return f"C25:{cls}:tests:" + ("+".join(nest) if nest else "no-nesting")

    def replay(self, ctx, rp):
        case = rp["case"]
        res = self.execute(ctx, case)
        status, viol = self.judge(ctx, case, res)
        return [{"class": c, "key": self.key(case, c), "detail": d, "replay": rp} for c, d in viol[:1]]

    def minimise(self, ctx, v):
        cls = v["class"]
        case = json.loads(json.dumps(v["replay"]["case"]))
        if case["mode"] == "sandboxed-test":
            i = len(case["progs"]) - 1
            while i >= 0 and len(case["progs"]) > 1:
                cand = json.loads(json.dumps(case))
                del cand["progs"][i]
                got = self.replay(ctx, {"case": cand})
                if got and got[0]["class"] == cls:
                    case = cand
                i -= 1
        for st in ("closed",):
            cand = dict(case, stdin=st)
            got = self.replay(ctx, {"case": cand})
            if got and got[0]["class"] == cls:
                case = cand
        a = self.replay(ctx, {"case": case})
        b = self.replay(ctx, {"case": case})
        if a and b and a[0]["class"] == cls and b[0]["class"] == cls:
            nv = dict(v)
            nv["replay"] = {"case": case}
            nv["detail"] = f"[{case['mode']} {[p[0] for p in case['progs']]} stdin {case['stdin']}] " + a[0]["detail"]
            return nv
        return v

    def extra_coverage(self, results):
        return {"cpu_bound_s": _CAL.get("bound"), "cpu_baseline_s": _CAL.get("baseline")}


PROP = C25()
