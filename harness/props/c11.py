"""C11 - incremental session input equals running it as one program.

Reference model: the same inputs concatenated and submitted as one request to
a fresh simulated session.  Two configurations are run and reported
separately: fault-free, and with transparent faults (interrupt@k + :resume
inside any input, read-only commands between inputs, request bursts)."""
import json
import re

import common
from common import Rng, mix, run_req, final_response, printed, outcome, worker_responses
from gen import ProgGen, Scope
from props.base import SessimProp

READONLY = [":locals", ":globals", ":stack", ":funs", ":types", ":fstmts", ":fvalues", ":doc println", ":source println",
            ":search len", ":help", ":version", ":namespaces", ":methods String", ":type 1 + 1", ":parse 1 + 2",
            ":forget_calls"]
RESUME = run_req(":resume")


def gen_inputs(rng):
    r = rng
    n = r.randint(1, 8)
    g = ProgGen(r.fork("g"), size=8, tag="q")
    top = Scope()
    inputs = []
    for i in range(n):
        items = []
        g.tag = f"q{i}x"
        if r.chance(0.55):
            # definitions: uniquely named per input
            g.structs_before = len(g.structs)
            defs = g.gen_defs()
            if inputs and r.chance(0.3):
                # a method may reach the session in an earlier request than the type it belongs to
                early = [d for d in defs if d.startswith("method ")]
                defs = [d for d in defs if not d.startswith("method ")]
                inputs[-1].extend(early)
            items.extend(defs)
        g.budget = 6
        for _ in range(r.randint(0, 3)):
            k = r.below(5)
            if k == 0 or not top.all("I"):
                ty = r.weighted([(5, "I"), (1, "S"), (2, "L"), (1, "B")])
                name = g.fresh("t")
                e = g.expr(ty, top)
                if ty == "I":
                    e = f"({e}) % 1000"
                items.append(f"let {name} = {e}")
                top.add(ty, name)
            elif k == 1:
                v = r.choice(g.assignable(top))
                items.append(f"{v} = ({g.int_expr(top)}) % 1000")
            elif k == 2:
                v = r.choice(g.assignable(top))
                items.append(f"{v} += {g.int_expr(top, 2)} {v} = {v} % 1000")
            else:
                g.budget = 4
                items.append(g.stmt(top))
        if r.chance(0.2) and g.assignable(top):
            # a bare toplevel block after the other items of this input
            v = r.choice(g.assignable(top))
            items.append(f"{{ {v} = ({v} + {r.randint(1, 9)}) % 1000 {g.print_stmt(top)} }}")
        if r.chance(0.15):
            items.insert(r.randint(0, len(items)), r.choice(["// caf\u00e9 \u2192 \U0001f600", "// plain comment"]))
        if r.chance(0.3):
            # a passing test definition: running it must not disturb the toplevel state
            a = r.randint(0, 9)
            body = r.choice([f"assert({a} + 1 == {a + 1})", f"let a = {a} assert(a == {a})",
                             f"let l = [{a}] for x in l {{ assert(x == {a}) }}"])
            items.insert(r.randint(0, len(items)), f"test t{g.tag}{len(inputs)} {{ {body} }}")
        if not items:
            items.append(g.print_stmt(top))
        inputs.append(items)
    # final input: an expression whose value depends on as much earlier state as possible
    terms = []
    for v in top.all("I"):
        terms.append(v)
    for v in top.all("L"):
        terms.append(f"{v}.len()")
    for v in top.all("S"):
        terms.append(f"{v}.len()")
    for v in top.all("B"):
        terms.append(f"(if {v} {{ 1 }} else {{ 0 }})")
    for (fname, np) in g.funs:
        terms.append(f"{fname}({', '.join(str(r.randint(0, 9)) for _ in range(np))})")
    if not terms:
        terms = ["41"]
    final = "((" + " + ".join(terms) + ") % 100000)"
    if r.chance(0.3) and top.all("L"):
        final = f"[{final}, {r.choice(top.all('L'))}.len()]"
    if r.chance(0.12):
        # the history ends in a loop statement left by `break` (a loop's value is Unit); the input
        # before it ends in a call, whose value must not be mistaken for the loop's
        if g.funs:
            fname, np = r.choice(g.funs)
            inputs.append([f"{fname}({', '.join(str(r.randint(0, 9)) for _ in range(np))})"])
        k = r.randint(0, 3)
        finals = [f"let izf = 0 while True {{ izf += 1 if izf > {k} {{ break }} }}",
                  f"for qzf in [1, 2, 3] {{ if qzf > {k} {{ break }} }}",
                  f"let izf = 0 while izf < {k} {{ izf += 1 }}",
                  f"if {k} > 1 {{ println(\"zf\") }}"]
        if g.assignable(top):
            # other statements whose value is Unit
            v = r.choice(g.assignable(top))
            finals += [f"{v} += {k}", f"{v} -= {k}", f"{v} = {k}", f"let zfl = {v}"]
        final = r.choice(finals)
    elif r.chance(0.15):
        final = "{ " + final + " }"  # a toplevel block evaluates to its last expression
    else:
        # (Garden has no statement separator: an input that begins with `(` or `[` would, in the
        # one-program submission, continue the previous input's last expression as a call)
        final = f"let zfinal = {final} zfinal"
    inputs.append([final])
    return inputs


def value_text(line):
    oc = outcome(line)
    if oc[0] != "ok" or oc[1] is None:
        return None, oc
    txt = oc[1]
    m = re.search(r", and the expression evaluated to (.*)\.$", txt, re.S)
    if m:
        return m.group(1), oc
    if re.match(r"^(Loaded|Ran) ", txt):
        return None, oc
    return txt, oc


class C11(SessimProp):
    id = "C11"
    name = "c11"
    counts = {"quick": 2000, "thorough": 150000}
    wall_caps = {"quick": 150, "thorough": 1500}
    rule = ("case = an error-free history of 2..9 inputs (uniquely named function/enum/struct/method definitions, toplevel "
            "let, assignment, +=, loops and prints at toplevel, ending in an expression that folds every live toplevel "
            "variable and calls every defined function), run (a) incrementally without faults, (b) incrementally with "
            "transparent faults - an interrupt at step k followed by :resume inside inputs, read-only commands between "
            "inputs, bursts - and (c) concatenated as ONE request to a fresh session (reference). Value text of the last "
            "input and the concatenated printed output must agree. evaluations = simulated sessions. distinct_nontrivial "
            "= distinct (history hash, configuration) among error-free histories with at least 2 inputs that carry state "
            "from one request to a later one")
    expected_probes = ["faulty:interrupt_resumed", "faulty:readonly_cmd", "faulty:burst", "state_carried", "has_defs",
                       "final_depends_on_funs"]

    def gen_case(self, rng, tier, index):
        inputs = gen_inputs(rng.fork("in"))
        # which requests name a file: none (the session's default namespace), all of them the same one, or
        # only the first (a `run` with a path switches the toplevel to that file's namespace for what follows)
        path_mode = rng.fork("path").weighted([(5, "none"), (3, "all"), (2, "first")])
        return {"inputs": inputs, "fault_seed": rng.u64(), "path_mode": path_mode}

    def plan_faults(self, case):
        """Deterministic transparent-fault plan derived from the case."""
        r = Rng(case["fault_seed"])
        plan = []
        for i in range(len(case["inputs"])):
            p = {"interrupt_at": None, "cmds": [], "burst_with_next": False}
            has_test = any(x.startswith("test ") for x in case["inputs"][i])
            # (an input's tests run before its toplevel expressions and a stop inside a test ends
            # the request by design, so an interrupt there is not transparent: see DESIGN, C08)
            if r.chance(0.5) and not has_test:
                p["interrupt_at"] = r.randint(1, 40)
            elif has_test:
                r.randint(1, 40)
            for _ in range(r.weighted([(5, 0), (3, 1), (1, 2)])):
                p["cmds"].append(r.choice(READONLY))
            if r.chance(0.15):
                p["burst_with_next"] = True
            plan.append(p)
        return plan

    @staticmethod
    def path_for(case, i):
        mode = case.get("path_mode", "none")
        if mode == "all" or (mode == "first" and i == 0):
            return "proj/main_c11.gdn"
        return None

    def scenario_incremental(self, case, faulty):
        srcs = [" ".join(items) if not any(x.startswith(("fun ", "struct ", "enum ", "method ", "test ", "//")) for x in items)
                else "\n".join(items) for items in case["inputs"]]
        steps = []
        marks = []  # index of the step holding each input's (last) response
        if not faulty:
            for s in srcs:
                steps.append({"op": "send", "raw": run_req(s, path=self.path_for(case, len(marks)))})
                marks.append(len(steps) - 1)
            return steps, marks
        plan = self.plan_faults(case)
        i = 0
        while i < len(srcs):
            p = plan[i]
            if p["burst_with_next"] and i + 1 < len(srcs) and p["interrupt_at"] is None and plan[i + 1]["interrupt_at"] is None:
                steps.append({"op": "burst", "raws": [run_req(srcs[i], path=self.path_for(case, i)),
                                                      run_req(srcs[i + 1], path=self.path_for(case, i + 1))]})
                marks.append(("burst", len(steps) - 1, 0))
                marks.append(("burst", len(steps) - 1, 1))
                i += 2
                continue
            st = {"op": "send", "raw": run_req(srcs[i], path=self.path_for(case, i))}
            if p["interrupt_at"]:
                st["faults"] = [{"at": p["interrupt_at"], "kind": "interrupt"}]
            steps.append(st)
            steps.append({"op": "resume_loop", "raw": RESUME, "faults": [], "max": 3})
            marks.append(("resumable", len(steps) - 2))
            for c in p["cmds"]:
                steps.append({"op": "send", "raw": run_req(c)})
            i += 1
        return steps, marks

    def scenario_batch(self, case):
        flat = []
        for items in case["inputs"]:
            flat.extend(items)
        return [{"op": "send", "raw": run_req("\n".join(flat), path=self.path_for(case, 0))}]

    def collect(self, res, marks):
        """Per input: (final line, printed text, interrupted?)"""
        out = []
        for m in marks:
            if isinstance(m, int):
                rd = res["steps"][m]["rounds"][0]
                out.append((final_response(rd), printed(rd), False, rd.get("panic")))
            elif m[0] == "burst":
                rd = res["steps"][m[1]]["rounds"][0]
                wr = worker_responses(rd)
                line = wr[m[2]] if m[2] < len(wr) else None
                # printed output of a burst is attributed to its first input
                out.append((line, printed(rd) if m[2] == 0 else "", False, rd.get("panic")))
            else:
                idx = m[1]
                rd = res["steps"][idx]["rounds"][0]
                text = printed(rd)
                line = final_response(rd)
                interrupted = False
                if idx + 1 < len(res["steps"]) and res["steps"][idx + 1]["op"] == "resume_loop":
                    for r2 in res["steps"][idx + 1]["rounds"]:
                        interrupted = True
                        text += printed(r2)
                        line = final_response(r2)
                out.append((line, text, interrupted, rd.get("panic")))
        return out

    def run_config(self, ex, case, faulty):
        steps, marks = self.scenario_incremental(case, faulty)
        res = ex.run({"steps": steps, "step_budget": 40000})
        if res.get("executor_died"):
            return None, res, steps
        if res["dead"] or len(res["steps"]) < len(steps):
            return "dead", res, steps
        return self.collect(res, marks), res, steps

    def run_case(self, ctx, case):
        ex = ctx["ex"]
        stats = {}
        out = {"evaluations": 0, "nontrivial": [], "violations": [], "stats": stats, "sim_steps": 0, "sample": None}

        def bump(k, n=1):
            stats[k] = stats.get(k, 0) + n

        bres = ex.run({"steps": self.scenario_batch(case), "step_budget": 60000})
        out["evaluations"] += 1
        if bres.get("executor_died") or bres["dead"]:
            bump("batch_died_or_panicked(C02 territory, skipped)")
            return out
        brd = bres["steps"][0]["rounds"][0]
        bval, boc = value_text(final_response(brd))
        if brd["budget_exceeded"]:
            bump("batch_step_budget_exceeded(skipped)")
            return out
        if boc[0] != "ok" or bval is None:
            # Not error-free as one program.  Then it must not be error-free incrementally either:
            # a history whose every input succeeds on its own but which fails when submitted together
            # reports a different value for the last input (an error instead of a value).
            got, res, steps = self.run_config(ex, case, False)
            out["evaluations"] += 1
            if got not in (None, "dead") and not any(rd["budget_exceeded"] for s in res["steps"] for rd in s["rounds"]) \
                    and all(outcome(line)[0] == "ok" for (line, _, _, _) in got) and value_text(got[-1][0])[0] is not None:
                out["violations"].append({
                    "class": "batch-error", "key": "C11:fault_free:batch-error",
                    "detail": f"every input succeeds incrementally (last value {value_text(got[-1][0])[0]!r}) but the same inputs "
                              f"submitted as one program answer {boc}",
                    "replay": {"case": case, "faulty": False}})
                out["sample"] = {"inputs": [" ".join(i)[:200] for i in case["inputs"]], "batch_value": None, "fault_plan": []}
                return out
            bump("not_error_free_either_way(skipped):" + boc[0])
            return out
        bprinted = printed(brd)
        out["sim_steps"] += brd["steps"]
        hist_hash = common.stable_hash(case["inputs"])
        for faulty in (False, True):
            cfg = "faulty" if faulty else "fault_free"
            got, res, steps = self.run_config(ex, case, faulty)
            out["evaluations"] += 1
            if got is None:
                out["violations"].append({"class": "simulator-process-died", "key": "C11:simulator-process-died",
                                          "detail": json.dumps(res)[:300], "replay": {"case": case, "faulty": faulty}})
                break
            if got == "dead" and any(rd["budget_exceeded"] for s in res["steps"] for rd in s["rounds"]):
                # the harness's own step budget stopped an input (as an interrupt would): what follows is
                # a session stopped in a frame, not the history that was generated
                bump(f"cfg:{cfg}:step_budget_exceeded(skipped)")
                continue
            if got == "dead":
                pans = [rd.get("panic") for s in res["steps"] for rd in s["rounds"] if rd.get("panic")]
                out["violations"].append({"class": "panic", "key": f"C11:{cfg}:panic",
                                          "detail": f"incremental run killed the eval thread: {pans}; batch run is fine",
                                          "replay": {"case": case, "faulty": faulty}})
                break
            if any(rd["budget_exceeded"] for s in res["steps"] for rd in s["rounds"]):
                bump(f"cfg:{cfg}:step_budget_exceeded(skipped)")
                continue
            for s in res["steps"]:
                for rd in s["rounds"]:
                    out["sim_steps"] += rd["steps"]
                    for f in rd["fired"]:
                        bump("fault:interrupt_at_step")
                        bump(f"site:{f['expr']}/{f['state']}/d{min(f['depth'], 4)}")
                if s["op"] == "burst":
                    bump("probe:faulty:burst")
                    bump("fault:request_burst")
            if faulty:
                for st in steps:
                    if st["op"] == "send" and json.loads(st["raw"])["input"].startswith(":"):
                        bump("probe:faulty:readonly_cmd")
                        bump("fault:readonly_command_between_inputs")
            errs = [i for i, (line, _, _, _) in enumerate(got) if outcome(line)[0] != "ok"]
            if errs:
                i = errs[0]
                bump(f"cfg:{cfg}:incremental_error")
                out["violations"].append({
                    "class": "incremental-error", "key": f"C11:{cfg}:incremental-error",
                    "detail": f"input #{i} {' '.join(case['inputs'][i])[:200]!r} answered {outcome(got[i][0])} "
                              f"incrementally, but the same inputs run as one program give {boc}",
                    "replay": {"case": case, "faulty": faulty}})
                break
            if any(x[2] for x in got):
                bump("probe:faulty:interrupt_resumed")
            ival, ioc = value_text(got[-1][0])
            itext = "".join(x[1] for x in got)
            bump(f"cfg:{cfg}:compared")
            if len(case["inputs"]) >= 2:
                bump("probe:state_carried")
                out["nontrivial"].append(mix(hist_hash, cfg))
            if any(any(x.startswith("fun ") for x in items) for items in case["inputs"]):
                bump("probe:has_defs")
                bump("probe:final_depends_on_funs")
            if ival != bval:
                out["violations"].append({
                    "class": "value-differs", "key": f"C11:{cfg}:value-differs",
                    "detail": f"last input evaluates to {ival!r} incrementally but to {bval!r} when all inputs are "
                              f"submitted as one program",
                    "replay": {"case": case, "faulty": faulty}})
                break
            if itext != bprinted:
                out["violations"].append({
                    "class": "output-differs", "key": f"C11:{cfg}:output-differs",
                    "detail": f"incremental output {itext!r} != one-program output {bprinted!r}",
                    "replay": {"case": case, "faulty": faulty}})
                break
        if out["sample"] is None:
            out["sample"] = {"inputs": [" ".join(i)[:200] for i in case["inputs"]], "batch_value": bval,
                             "fault_plan": self.plan_faults(case)}
        return out

    def replay(self, ctx, rp):
        r = self.run_case(ctx, rp["case"])
        return [v for v in r["violations"] if v["replay"]["faulty"] == rp["faulty"]] or r["violations"]

    def minimise(self, ctx, v):
        key = v["key"]
        case = json.loads(json.dumps(v["replay"]["case"]))

        def fails(c):
            got = self.run_case(ctx, c)["violations"]
            return bool(got) and got[0]["key"] == key

        # drop whole inputs (never the last), then items inside inputs
        i = len(case["inputs"]) - 2
        while i >= 0:
            cand = json.loads(json.dumps(case))
            del cand["inputs"][i]
            if fails(cand):
                case = cand
            i -= 1
        for i in range(len(case["inputs"]) - 1):
            j = len(case["inputs"][i]) - 1
            while j >= 0 and len(case["inputs"][i]) > 1:
                cand = json.loads(json.dumps(case))
                del cand["inputs"][i][j]
                if fails(cand):
                    case = cand
                j -= 1
        a = self.run_case(ctx, case)["violations"]
        b = self.run_case(ctx, case)["violations"]
        if a and b and a[0]["key"] == key and a[0]["detail"] == b[0]["detail"]:
            nv = dict(v)
            nv["replay"] = {"case": case, "faulty": a[0]["replay"]["faulty"]}
            nv["detail"] = a[0]["detail"] + " | minimised inputs: " + json.dumps(case["inputs"])[:900]
            return nv
        return v


PROP = C11()
