"""C24 - sandboxed code cannot touch files, processes or stdin (worldsim)."""
import json
import os
import shutil
import tempfile

import common
import worldsim
from common import Rng, mix

SANDBOX_MSG = "Tried to execute unsafe code in sandboxed mode"


def effect_calls(w_abs):
    """(key, imports, well-typed call, what it would do)"""
    def P(rel, absolute):
        return f"Path{{ p: \"{os.path.join(w_abs, rel) if absolute else rel}\" }}"
    out = []
    for absolute in (False, True):
        a = "abs" if absolute else "rel"
        out += [
            (f"fs::read_file:secret:{a}", "fs", f"fs::read_file({P('secret.txt', absolute)})", "read"),
            (f"fs::read_file_bytes:secret:{a}", "fs", f"fs::read_file_bytes({P('secret.txt', absolute)})", "read"),
            (f"fs::write_file:new:{a}", "fs", f"fs::write_file(\"written\", {P('new_file.txt', absolute)})", "create"),
            (f"fs::write_file:sentinel:{a}", "fs", f"fs::write_file(\"overwritten\", {P('sentinel.txt', absolute)})", "modify"),
            (f"fs::write_bytes:new:{a}", "fs", f"fs::write_bytes([65, 66], {P('new_bytes.bin', absolute)})", "create"),
            (f"fs::copy_file:{a}", "fs", f"fs::copy_file({P('secret.txt', absolute)}, {P('copied.txt', absolute)})", "create"),
            (f"fs::remove_file:sentinel:{a}", "fs", f"fs::remove_file({P('sentinel.txt', absolute)})", "delete"),
            (f"fs::list_directory:{a}", "fs", f"fs::list_directory({P('sub', absolute)})", "read"),
            (f"fs::create_dir:{a}", "fs", f"fs::create_dir({P('made_dir', absolute)})", "create"),
            (f"fs::remove_dir:{a}", "fs", f"fs::remove_dir({P('emptydir', absolute)})", "delete"),
            (f"fs::write_bytes:new-empty:{a}", "fs", f"fs::write_bytes([], {P('new_empty.bin', absolute)})", "create"),
            (f"fs::write_bytes:sentinel-empty:{a}", "fs", f"fs::write_bytes([], {P('sentinel.txt', absolute)})", "modify"),
            (f"fs::write_file:sentinel-empty:{a}", "fs", f"fs::write_file(\"\", {P('sentinel.txt', absolute)})", "modify"),
            (f"fs::read_file:absent:{a}", "fs", f"fs::read_file({P('no_such_file.txt', absolute)})", "read"),
            (f"fs::remove_file:absent:{a}", "fs", f"fs::remove_file({P('no_such_file.txt', absolute)})", "delete"),
            (f"fs::list_directory:absent:{a}", "fs", f"fs::list_directory({P('no_such_dir', absolute)})", "read"),
            (f"fs::create_dir:existing:{a}", "fs", f"fs::create_dir({P('sub', absolute)})", "create"),
            (f"fs::copy_file:onto-sentinel:{a}", "fs", f"fs::copy_file({P('secret.txt', absolute)}, {P('sentinel.txt', absolute)})", "modify"),
            (f"fs::read_file:via-symlink:{a}", "fs", f"fs::read_file({P('link_to_secret', absolute)})", "read"),
            # built-ins the sandbox allows because they are pure: they must stay pure (no syscall may
            # touch the world, whatever the argument names)
            (f"fs::set_working_directory:dir:{a}", "fs", f"fs::set_working_directory({P('sub', absolute)})", "pure"),
            (f"fs::set_working_directory:absent:{a}", "fs", f"fs::set_working_directory({P('no_such_dir', absolute)})", "pure"),
            (f"fs::set_working_directory:symlink:{a}", "fs", f"fs::set_working_directory({P('link_to_sub', absolute)})", "pure"),
            (f"Path.exists:{a}", "", f"{P('secret.txt', absolute)}.exists()", "read"),
            (f"Path.exists:absent:{a}", "", f"{P('no_such_file.txt', absolute)}.exists()", "read"),
            (f"Path.info:{a}", "", f"{P('secret.txt', absolute)}.info()", "read"),
        ]
    out += [
        ("shell::run:canary-by-name", "shell", "shell::run(\"canary\", [\"by-name\"])", "process"),
        ("shell::run:canary-abs", "shell", f"shell::run(\"{os.path.join(w_abs, 'bin', 'canary')}\", [])", "process"),
        ("shell::run:sh", "shell", "shell::run(\"sh\", [\"-c\", \"echo hi > created_by_sh.txt\"])", "process"),
        ("read_line", "", "read_line()", "stdin"),
        ("fs::working_directory", "fs", "fs::working_directory()", "pure"),
        ("shell_arguments", "", "shell_arguments()", "pure"),
    ]
    return out


def _top_level_args(text):
    """Number of comma-separated arguments at nesting depth 0 (strings respected)."""
    depth, n, in_str = 0, 1, False
    for i, ch in enumerate(text):
        if in_str:
            if ch == "\"" and text[i - 1] != "\\":
                in_str = False
        elif ch == "\"":
            in_str = True
        elif ch in "([{":
            depth += 1
        elif ch in ")]}":
            depth -= 1
        elif ch == "," and depth == 0:
            n += 1
    return n


POSITIONS = ["toplevel", "fun", "closure", "method", "loop", "matcharm", "arg", "after_stmts", "if", "nested_fun", "test",
             "callback", "while_cond", "struct_field", "hof_value", "after_budget"]


def place(call, position, rng):
    """Returns (definitions, body statements) - body prints before / result / after."""
    pr = f"println(\"RESULT:\" ^ string_repr({call}))"
    if position == "toplevel":
        return "", pr
    if position == "fun":
        return f"fun doit() {{ {call} }}", "println(\"RESULT:\" ^ string_repr(doit()))"
    if position == "nested_fun":
        return (f"fun doit1() {{ {call} }}\nfun doit2() {{ let r = doit1() r }}\nfun doit3() {{ [doit2()] }}",
                "println(\"RESULT:\" ^ string_repr(doit3()))")
    if position == "closure":
        return "", f"let k = fun() {{ {call} }} println(\"RESULT:\" ^ string_repr(k()))"
    if position == "method":
        return (f"struct Doer {{ n: Int }}\nmethod go(this: Doer) {{ {call} }}",
                "println(\"RESULT:\" ^ string_repr(Doer{ n: 1 }.go()))")
    if position == "loop":
        return "", f"for i in [1, 2] {{ {pr} }}"
    if position == "matcharm":
        return "", f"match Some(1) {{ Some(_) => {{ {pr} }} None => {{}} }}"
    if position == "arg":
        return "fun takes2(a, b) { b }", f"println(\"RESULT:\" ^ string_repr(takes2(1, {call})))"
    if position == "after_stmts":
        n = rng.randint(1, 3)
        pre = " ".join(f"let h{i} = {i} + 1" for i in range(n))
        return "", f"{pre} {pr}"
    if position == "if":
        return "", f"if 1 < 2 {{ {pr} }} else {{ println(\"no\") }}"
    if position == "hof_value":
        # the built-in itself, as a function value, handed to a prelude function written in Garden:
        # the call then happens in a standard-library frame
        m = __import__("re").match(r"^([A-Za-z_:]+)\((.*)\)$", call)
        if m and m.group(2) and _top_level_args(m.group(2)) == 1:
            return "", f"let rs = [{m.group(2)}].map({m.group(1)}) println(\"RESULT:\" ^ string_repr(rs))"
        return "", f"let rs = [1].map(fun(_) {{ {call} }}) println(\"RESULT:\" ^ string_repr(rs))"
    if position == "after_budget":
        # the call site lies beyond the sandbox's step budget: the run must end with the limit error
        # (or the refusal), and whatever the runner does about the exhausted budget, nothing may happen
        return "", f"let hb = 0 while hb < 16000 {{ hb += 1 }} {pr}"
    if position == "callback":
        # called from inside a prelude function written in Garden
        return "", f"let rs = [1].map(fun(_) {{ {call} }}) println(\"RESULT:\" ^ string_repr(rs))"
    if position == "while_cond":
        return "", f"let n = 0 while string_repr({call}) != \"\" && n < 1 {{ n += 1 }} println(\"RESULT:\" ^ string_repr(n))"
    if position == "struct_field":
        return "struct Holder { v: String }", f"let h = Holder{{ v: string_repr({call}) }} println(\"RESULT:\" ^ h.v)"
    if position == "test":
        return f"test effect_test {{ let r = {call} assert(string_repr(r) == \"nope\") }}", "println(\"RESULT: tests ran\")"
    raise ValueError(position)


class C24:
    id = "C24"
    name = "c24"
    engine = "worldsim"
    level = "exploration"
    counts = {"quick": 700, "thorough": 12000}
    wall_caps = {"quick": 170, "thorough": 1500}
    rule = ("case = one effectful built-in call (every fs:: function, Path.exists/info, shell::run by name / absolute path / "
            "via sh, read_line; relative and absolute targets: secret file, sentinel, new file, directories, a canary "
            "executable first on PATH) placed at one of 11 positions (toplevel, function, 3-deep calls, closure, method, "
            "loop, match arm, argument, after statements, if branch, test body, callback of a prelude function, loop "
            "condition, struct field; module imported under its usual alias, another alias or unqualified), run by the REAL binary in "
            "`playground-run` or `sandboxed-test` mode inside a seeded scratch world with stdin loaded / stalled / closed "
            "and optionally a Ctrl-C injected at step k (VERIF_FAULTS). evaluations = child processes. distinct_nontrivial "
            "= distinct (call, position, mode, stdin mode, fault) in which the call site was really reached (output shows "
            "the token printed just before it)")
    expected_probes = ["mode:playground-run", "mode:sandboxed-test", "stdin:loaded", "stdin:stalled", "stdin:closed",
                       "interrupt_injected", "strace_observed", "kind:read", "kind:create", "kind:modify", "kind:delete",
                       "kind:process", "kind:stdin", "kind:pure"]
    real_components = ["the real garden binary (playground-run / sandboxed-test), unmodified code paths; hook H2 only "
                       "counts steps and, when VERIF_FAULTS asks, sets the Ctrl-C flag at step k"]
    stub_components = ["the world: scratch directory tree, PATH with a canary executable, stdin pipe (loaded / stalled / "
                       "closed), TMPDIR and HOME inside the scratch root; the syscall observer is strace"]
    assumptions = ["effects are judged at the process boundary: file-tree snapshot before/after, canary marker, bytes left "
                   "in the stdin pipe, secret/stdin tokens in the output, and (for a share of the runs) the strace log",
                   "blocked-on-stdin is an observation of /proc state (sleeping in read(0) with a standing CPU clock), "
                   "not a wall-clock guess"]

    def make_context(self, rank, root=None):
        d, own = common.make_work_dir(self.id, rank, root)
        return {"dir": d, "n": 0, "own_root": own}

    def close_context(self, ctx):
        shutil.rmtree(ctx.get("own_root") or ctx["dir"], ignore_errors=True)

    def gen_case(self, rng, tier, index):
        calls = effect_calls("@W@")
        i = index % len(calls)
        key, imp, call, kind = calls[i]
        position = POSITIONS[(index // len(calls)) % len(POSITIONS)] if tier == "thorough" else rng.choice(POSITIONS)
        mode = rng.weighted([(3, "playground-run"), (2, "sandboxed-test")])
        if position == "test" and mode == "sandboxed-test":
            pass
        stdin_mode = rng.choice(["loaded", "stalled", "closed"])
        fault = None
        if rng.chance(0.2):
            fault = rng.randint(1, 40)
        return {"key": key, "imp": imp, "call": call, "kind": kind, "position": position, "mode": mode,
                "stdin": stdin_mode, "fault": fault, "strace": rng.chance(0.5 if tier == "quick" else 0.3) or kind == "pure",
                "token": f"{rng.u64():016x}", "aux": rng.u64()}

    def build_program(self, case, w_abs):
        call = case["call"].replace("@W@", w_abs)
        imports = f"import \"__{case['imp']}.gdn\" as {case['imp']}\n" if case["imp"] else ""
        style = Rng(case["aux"]).fork("import").below(4) if case["imp"] else 0
        if style == 1:
            # another alias
            imports = f"import \"__{case['imp']}.gdn\" as zz\n"
            call = call.replace(f"{case['imp']}::", "zz::")
        elif style == 2:
            # no alias: the module's public functions are called unqualified
            imports = f"import \"__{case['imp']}.gdn\"\n"
            call = call.replace(f"{case['imp']}::", "")
        defs, body = place(call, case["position"], Rng(case["aux"]))
        if case["mode"] == "sandboxed-test":
            # everything happens inside a test body; the helper definitions stay at toplevel
            inner_defs = defs if case["position"] != "test" else ""
            if case["position"] == "test":
                src = f"{imports}test effect_test {{\n  println(\"BEFORE\")\n  let r = {call}\n  println(\"AFTER\")\n  assert(string_repr(r) == \"nope\")\n}}\n"
            else:
                src = f"{imports}{inner_defs}\ntest effect_test {{\n  println(\"BEFORE\")\n  {body}\n  println(\"AFTER\")\n}}\ntest harmless {{ assert(1 == 1) }}\n"
            return src
        return f"{imports}{defs}\nprintln(\"BEFORE\")\n{body}\nprintln(\"AFTER\")\n\"FINAL\"\n"

    def execute(self, ctx, case):
        ctx["n"] += 1
        root = os.path.join(ctx["dir"], f"run{ctx['n']:06d}")
        os.makedirs(root)
        w = worldsim.World(root, case["token"])
        try:
            src = self.build_program(case, w.dir)
            prog = w.write("prog.gdn", src)
            before = worldsim.snapshot(w.dir)
            env = w.env()
            if case["fault"]:
                env["VERIF_FAULTS"] = f"interrupt@{case['fault']}"
                env["VERIF_FAULTS_LOG"] = os.path.join(root, "faults.log")
            argv = [common.BIN, case["mode"], "prog.gdn"]
            if case["mode"] == "sandboxed-test":
                argv.append(str(src.index("test effect_test") + 6) if Rng(case["aux"]).chance(0.5) else "0")
            st_path = os.path.join(root, "strace.txt") if case["strace"] else None
            res = worldsim.run_child(argv, w.dir, env, stdin_mode=case["stdin"], stdin_text=w.stdin_text,
                                     cpu_s=20, wall_s=40, strace_to=st_path)
            after = worldsim.snapshot(w.dir)
            res["fs_changes"] = worldsim.diff_snapshots(before, after)
            res["canary_ran"] = os.path.exists(w.marker)
            res["strace_effects"] = worldsim.strace_effects(st_path, w.dir, allowed_paths=(prog,)) if st_path else None
            res["fault_fired"] = os.path.exists(os.path.join(root, "faults.log"))
            res["secret"] = w.secret_text
            res["stdin_token"] = w.stdin_text
            res["src"] = src
            return res
        finally:
            w.cleanup()

    def judge(self, case, res):
        """Returns (reached_call_site, [(class, detail)])"""
        v = []
        out = res["stdout"] + res["stderr"]
        site = f"{case['key']}"
        if res["signal"] is not None and not res["killed"]:
            v.append(("crash", f"child died by signal {res['signal']}"))
        if res["blocked_on_stdin"]:
            v.append(("blocked-on-stdin", "the sandboxed run sleeps in read(0): it is waiting for standard input"))
        if res["fs_changes"]:
            v.append(("fs-effect", f"world changed: {res['fs_changes']}"))
        if res["canary_ran"]:
            v.append(("process-started", "the canary executable was run"))
        if res["secret"] in out:
            v.append(("secret-leaked", "the secret file's content appears in the output"))
        if res["stdin_token"] in out:
            v.append(("stdin-read", "the line waiting on stdin appears in the output"))
        if case["stdin"] == "loaded" and res["stdin_left"] is not None and res["stdin_left"] != res["stdin_total"]:
            v.append(("stdin-consumed", f"{res['stdin_total'] - res['stdin_left']} byte(s) were consumed from stdin"))
        if res["strace_effects"]:
            v.append(("syscall-effect", f"syscalls touching the world: {res['strace_effects'][:6]}"))
        reached = False
        if case["mode"] == "playground-run":
            lines = [l for l in res["stdout"].splitlines() if l.strip()]
            printed = []
            final = None
            finals = []
            for l in lines:
                try:
                    d = json.loads(l)
                except Exception:
                    continue
                if "printed" in d:
                    printed.append(d["printed"]["s"])
                elif "error" in d or "value" in d:
                    final = d
                    finals.append(d)
            ptext = "".join(printed)
            reached = "BEFORE" in ptext or case["position"] == "test"
            interrupted = final is not None and final.get("error") == "Interrupted"
            if case["fault"] and (interrupted or not reached):
                pass  # the Ctrl-C won the race; only the absence of effects is required
            elif case["kind"] == "pure" or case["position"] == "after_budget":
                pass  # (pure: allowed in the sandbox; after_budget: the step limit ends the run first) only the
                # absence of effects is required
            elif not res["killed"]:
                if final is None or final.get("error") != SANDBOX_MSG:
                    if case["position"] == "test":
                        # tests inside a playground run are reported through describe_tests, which
                        # only says Failed/passed: the test must not have passed or gone unreported
                        if not any("Failed: effect_test" in str(d.get("value")) for d in finals):
                            v.append(("not-refused", f"the test making the call was not reported as failed: {finals}"))
                    else:
                        v.append(("not-refused", f"expected error {SANDBOX_MSG!r}, final response {final}; printed {ptext!r}"))
                if "AFTER" in ptext and case["position"] != "test":
                    v.append(("continued-after-call", f"the program went on after the call site: {ptext!r}"))
                if "RESULT:" in ptext and case["position"] != "test":
                    v.append(("call-returned", f"the effectful call returned a value: {ptext!r}"))
        else:
            try:
                d = json.loads(res["stdout"].strip().splitlines()[-1])
            except Exception:
                d = None
            if d is None:
                if not res["killed"]:
                    v.append(("no-summary", f"sandboxed-test printed no JSON summary: {res['stdout'][:200]!r} {res['stderr'][:200]!r}"))
            else:
                t = d.get("tests", {}).get("effect_test")
                reached = t is not None
                if t is not None and not (case["fault"] and t.get("description") == "interrupted") and case["kind"] != "pure" \
                        and case["position"] != "after_budget":
                    if t.get("description") != "sandboxed":
                        v.append(("not-refused", f"test verdict {t} instead of `sandboxed`"))
        return reached, v

    def run_case(self, ctx, case):
        stats = {}
        out = {"evaluations": 1, "nontrivial": [], "violations": [], "stats": stats, "sim_steps": 0, "sample": None}

        def bump(k, n=1):
            stats[k] = stats.get(k, 0) + n

        res = self.execute(ctx, case)
        reached, viol = self.judge(case, res)
        bump("probe:mode:" + case["mode"])
        bump("probe:stdin:" + case["stdin"])
        bump("probe:kind:" + case["kind"])
        bump("fault:stdin_" + case["stdin"])
        if case["fault"] and res["fault_fired"]:
            bump("probe:interrupt_injected")
            bump("fault:ctrl_c_at_step")
        if case["strace"]:
            bump("probe:strace_observed")
        if reached:
            bump("call_site_reached")
            out["nontrivial"].append(mix(case["key"], case["position"], case["mode"], case["stdin"], str(case["fault"])))
        for cls, detail in viol[:1]:
            out["violations"].append({
                "class": cls, "key": f"C24:{case['key'].split(':')[0] if not case['key'].startswith(('fs', 'shell')) else ':'.join(case['key'].split(':')[:3])}:{cls}",
                "detail": f"[{case['mode']} {case['call']} at {case['position']}, stdin {case['stdin']}, fault {case['fault']}] {detail}"
                          f" (all: {[c for c, _ in viol]})",
                "replay": {"case": case}})
        out["sample"] = {"program": res["src"], "argv_mode": case["mode"], "stdin": case["stdin"], "fault": case["fault"],
                         "stdout": res["stdout"][:300]}
        return out

    def replay(self, ctx, rp):
        case = rp["case"]
        res = self.execute(ctx, case)
        reached, viol = self.judge(case, res)
        return [{"class": c, "key": f"C24:{case['key'].split(':')[0] if not case['key'].startswith(('fs', 'shell')) else ':'.join(case['key'].split(':')[:3])}:{c}",
                 "detail": d, "replay": rp} for c, d in viol[:1]]

    def minimise(self, ctx, v):
        """Simplest world that still shows it: toplevel position, no fault, closed or loaded stdin."""
        cls = v["class"]
        case = dict(v["replay"]["case"])
        for change in ({"position": "toplevel"}, {"fault": None}, {"mode": "playground-run"}, {"strace": False}):
            cand = dict(case, **change)
            got = self.replay(ctx, {"case": cand})
            if got and got[0]["class"] == cls:
                case = cand
        a = self.replay(ctx, {"case": case})
        b = self.replay(ctx, {"case": case})
        if a and b and a[0]["class"] == cls and b[0]["class"] == cls:
            nv = dict(v)
            nv["replay"] = {"case": case}
            nv["detail"] = f"[{case['mode']} {case['call']} at {case['position']}, stdin {case['stdin']}, fault {case['fault']}] " + a[0]["detail"]
            return nv
        return v


PROP = C24()
