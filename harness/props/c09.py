"""C09 - the JSON session answers every request and never dies."""
import json
import os
import re

import common
import history
from common import Rng, mix, run_req, final_response, printed, outcome, worker_responses
from props.base import SessimProp

EPILOGUE = [":abort", "1 + 1", "1 + 1"]


def is_interrupt_request(raw):
    try:
        d = json.loads(raw)
    except Exception:
        return False
    # serde ignores unknown fields of the unit variant, so any object whose
    # method is "interrupt" is an interrupt request.
    return isinstance(d, dict) and d.get("method") == "interrupt"


def req_id(raw):
    try:
        d = json.loads(raw)
    except Exception:
        return None
    if isinstance(d, dict) and isinstance(d.get("id"), int) and d["id"] >= 0:
        return d["id"]
    return None


def norm_panic(msg):
    msg = msg or ""
    loc = ""
    if " @ " in msg:
        msg, loc = msg.rsplit(" @ ", 1)
    msg = re.sub(r"/tmp/[^ :,]*", "<path>", msg)
    msg = re.sub(r"`[^`]*`", "`_`", msg)
    msg = re.sub(r"[0-9]+", "N", msg)
    fn = loc.split(":")[0].replace("/repo/", "")
    return f"{msg[:70].strip()}@{fn}"


def symptom(msg):
    """Coarse symptom class of a panic message: the families of known defects
    all corrupt the frame's value stack or scope stack, and the evaluator then
    trips over it at whichever step comes next."""
    m = msg or ""
    if ("Popped an empty value" in m or "Value stack should have sufficient items" in m
            or "Should have a value" in m or "should be present" in m or "Expected a value" in m):
        return "empty-value-stack"
    if "block_bindings" in m or "binding" in m.lower():
        return "scope-stack-underflow"
    if "loop index should always be" in m:
        return "for-loop-state-on-value-stack-lost"
    return "other:" + norm_panic(m)


def in_frame(name):
    return isinstance(name, str) and name.startswith(("fun ", "method ", "test ", "closure"))


class C09(SessimProp):
    id = "C09"
    name = "c09"
    counts = {"quick": 3000, "thorough": 300000}
    wall_caps = {"quick": 150, "thorough": 1500}
    rule = ("case = one seeded request history of 3..25 requests over run (definitions / expressions / mixed / failing sites "
            "at 11 placements / expressions in the stopped context / test definitions), load, eval_up_to, interrupt "
            "(mid-evaluation at step k, while idle, doubled, inside a burst), malformed requests and 75 REPL command "
            "forms, followed by the fixed epilogue :abort, 1 + 1, 1 + 1; swarm-style per-run operation weights and "
            "interrupt rate. evaluations = simulated sessions. distinct_nontrivial = distinct (request-kind sequence, "
            "landed fault sites) among histories in which at least one command was issued while the session was stopped "
            "inside a frame or at least one interrupt landed")
    expected_probes = ["cmd_while_stopped_in_frame", "cmd_at_toplevel", "interrupt_landed", "skip_at_toplevel",
                       "resume_at_toplevel", "replace_while_stopped", "abort_while_stopped", "burst", "idle_interrupt",
                       "test_cmd", "forget_local_while_stopped", "malformed", "budget_exceeded"]

    def make_context(self, rank, root=None):
        ctx = super().make_context(rank, root)
        d = ctx["dir"]
        with open(os.path.join(d, "world_ok.gdn"), "w") as f:
            f.write("fun world_fun(x) { x + 1 }\nfun world_other() { world_fun(2) }\n")
        with open(os.path.join(d, "world_bad.gdn"), "w") as f:
            f.write("fun broken( { \n")
        return ctx

    def gen_case(self, rng, tier, index):
        swarm = history.swarm_config(rng.fork("swarm"))
        n = rng.randint(3, 25)
        steps, meta = history.gen_history(rng.fork("hist"), n, swarm)
        return {"steps": steps, "meta": meta}

    def scenario(self, steps):
        eid = 900000
        ep = []
        for e in EPILOGUE:
            eid += 1
            ep.append({"op": "send", "raw": run_req(e, eid)})
        return {"steps": list(steps) + ep, "step_budget": 30000}

    def judge(self, steps, res):
        """Returns list of (class, key, detail, step index)."""
        if res.get("executor_died"):
            return [("simulator-process-died", "C09:simulator-process-died:" + str(res.get("reason")),
                     json.dumps(res)[:500], None)]
        full = list(steps) + [{"op": "send", "raw": run_req(e, 900001 + i)} for i, e in enumerate(EPILOGUE)]
        out = []
        pending = False  # was the interrupt flag set when this round started?
        for si, (st, rs) in enumerate(zip(full, res["steps"])):
            for rd in rs["rounds"]:
                if pending and rd.get("budget_exceeded") and st["op"] == "send":
                    # An interrupt was waiting when this request began to evaluate, so its first step
                    # should have reported it; instead it ran until the simulator's step budget.  In a
                    # real session (no budget) this request - and everything queued behind it - is never
                    # answered, although the interrupt was acknowledged.
                    out.append(("interrupt-ignored", "C09:interrupt-ignored:" + self.describe(st),
                                f"request #{si} {self.describe(st)} started with an acknowledged interrupt pending and "
                                f"still ran {rd.get('steps')} steps (the whole step budget): it would never be answered", si))
                    return out
                pending = bool(rd.get("flag_after"))
                if rd.get("panic"):
                    what = "reader" if str(rd["panic"]).startswith("reader:") else "eval thread"
                    out.append(("panic", "C09:panic:" + norm_panic(rd["panic"]),
                                f"request #{si} {self.describe(st)} killed the {what}: {rd['panic']}", si,
                                symptom(rd["panic"])))
                    return out
                raws = [st["raw"]] if st["op"] == "send" else (st.get("raws") or ["{\"method\":\"interrupt\"}"])
                n_inj = sum(2 if f["kind"] == "double" else 1 for f in rd["fired"])
                acks = [e["line"] for e in rd["events"] if e["src"] == "reader"]
                wr = worker_responses(rd)
                n_int_req = sum(1 for r in raws if is_interrupt_request(r))
                if len(acks) != n_int_req + n_inj:
                    out.append(("ack-count", "C09:ack-count",
                                f"request #{si} {self.describe(st)}: {len(acks)} interrupt acks for "
                                f"{n_int_req + n_inj} interrupt requests", si))
                    return out
                for a in acks:
                    k = a.get("kind", {}) if isinstance(a, dict) else {}
                    if "interrupted" not in k or k["interrupted"].get("stack_frame_name") is not None:
                        out.append(("ack-shape", "C09:ack-shape", f"request #{si}: bad interrupt ack {a}", si))
                        return out
                others = [r for r in raws if not is_interrupt_request(r)]
                if len(wr) != len(others):
                    out.append(("response-count", "C09:response-count:" + self.describe(st),
                                f"request #{si} {self.describe(st)}: {len(wr)} responses for {len(others)} request(s): "
                                f"{[outcome(w) for w in wr]}", si))
                    return out
                for raw, w in zip(others, wr):
                    if not isinstance(w, dict) or "kind" not in w:
                        out.append(("response-shape", "C09:response-shape", f"request #{si}: {w}", si))
                        return out
                    if "id" in w and w["id"] is not None and w["id"] != req_id(raw):
                        out.append(("response-id", "C09:response-id:" + self.describe(st),
                                    f"request #{si} {self.describe(st)} (id {req_id(raw)}) answered with id {w['id']}", si))
                        return out
        if len(res["steps"]) != len(full) and not out:
            out.append(("session-stopped", "C09:session-stopped",
                        f"only {len(res['steps'])} of {len(full)} requests were processed", None))
        return out

    @staticmethod
    def describe(st):
        if st["op"] != "send":
            return st["op"]
        try:
            d = json.loads(st["raw"])
        except Exception:
            return "malformed"
        if not isinstance(d, dict):
            return "malformed"
        if d.get("method") == "run" and isinstance(d.get("input"), str):
            inp = d["input"].strip()
            if inp.startswith(":"):
                return inp.split(" ")[0]
            return "run"
        return str(d.get("method"))

    def run_case(self, ctx, case):
        ex = ctx["ex"]
        stats = {}
        out = {"evaluations": 1, "nontrivial": [], "violations": [], "stats": stats, "sim_steps": 0, "sample": None}

        def bump(k, n=1):
            stats[k] = stats.get(k, 0) + n

        res = ex.run(self.scenario(case["steps"]))
        viol = self.judge(case["steps"], res)
        interesting = False
        sites_hit = []
        if not res.get("executor_died"):
            frame = None
            for st, rs in zip(case["steps"], res["steps"]):
                d = self.describe(st)
                bump("req:" + (d if d.startswith(":") or d in ("run", "load", "eval_up_to", "malformed", "burst",
                                                                "idle_interrupt", "interrupt") else "other"))
                if d.startswith(":"):
                    if in_frame(frame):
                        bump("probe:cmd_while_stopped_in_frame")
                        interesting = True
                        if d == ":replace":
                            bump("probe:replace_while_stopped")
                        if d == ":abort":
                            bump("probe:abort_while_stopped")
                        if d == ":forget_local":
                            bump("probe:forget_local_while_stopped")
                    else:
                        bump("probe:cmd_at_toplevel")
                        if d == ":skip":
                            bump("probe:skip_at_toplevel")
                        if d == ":resume":
                            bump("probe:resume_at_toplevel")
                    if d == ":test":
                        bump("probe:test_cmd")
                if d == "malformed":
                    bump("probe:malformed")
                if st["op"] == "burst":
                    bump("probe:burst")
                if st["op"] == "idle_interrupt":
                    bump("probe:idle_interrupt")
                    bump("fault:interrupt_while_idle")
                for rd in rs["rounds"]:
                    out["sim_steps"] += rd["steps"]
                    if rd["budget_exceeded"]:
                        bump("probe:budget_exceeded")
                    for f in rd["fired"]:
                        bump("fault:" + f["kind"] + "_at_step")
                        bump("probe:interrupt_landed")
                        bump(f"site:{f['expr']}/{f['state']}/d{min(f['depth'], 4)}")
                        sites_hit.append(f"{f['expr']}/{f['state']}")
                        interesting = True
                    last = final_response(rd)
                    if last is not None:
                        k = last.get("kind", {})
                        for v in k.values():
                            if isinstance(v, dict) and "stack_frame_name" in v and v["stack_frame_name"] is not None:
                                frame = v["stack_frame_name"]
        if interesting:
            out["nontrivial"].append(mix(common.stable_hash(case["meta"]), common.stable_hash(sites_hit)))
        for cls, key, detail, si, *rest in viol[:1]:
            if cls == "panic":
                cls, key, detail = self.attribute(ex, case["steps"], cls, key, detail, rest[0])
            out["violations"].append({"class": cls, "key": key, "detail": detail,
                                      "replay": {"steps": case["steps"]}})
        if out["sample"] is None:
            out["sample"] = {"history": [self.describe(s) for s in case["steps"]],
                             "faults": [s.get("faults") for s in case["steps"] if s.get("faults")],
                             "first_requests": [s.get("raw", s["op"])[:160] for s in case["steps"][:4]]}
        return out

    # ---- root-cause attribution of a panic by counterfactual replay -------
    def panic_key(self, ex, steps):
        res = ex.run(self.scenario(steps))
        v = self.judge(steps, res)
        if v and v[0][0] == "panic":
            return v[0][1]
        return None

    def strip(self, steps, pred):
        out = []
        for st in steps:
            if st["op"] == "burst":
                raws = [r for r in st["raws"] if not pred({"op": "send", "raw": r})]
                if raws:
                    out.append(dict(st, raws=raws))
            elif not pred(st):
                out.append(st)
        return out

    def attribute(self, ex, steps, cls, key, detail, sym):
        """Which family of known defects, if any, does this panic belong to?
        Decided by counterfactual replay: the history is re-run with one
        ingredient removed; the first ingredient without which the same panic
        no longer happens names the family."""
        def is_test(st):
            if st["op"] != "send":
                return False
            d = self.describe(st)
            if d == ":test":
                return True
            try:
                inp = json.loads(st["raw"]).get("input", "")
            except Exception:
                return False
            return d == "run" and isinstance(inp, str) and re.search(r"(^|\s)test [a-z0-9A-Z_]+ \{", inp) is not None

        table = [
            ("panic-after-skip-or-replace", lambda st: self.describe(st) in (":skip", ":replace"),
             "does not happen with the :skip/:replace requests removed"),
            ("panic-running-test-while-stopped", is_test,
             "does not happen with the test definitions / :test requests removed"),
        ]
        cur = steps
        for name, pred, why in table:
            # cumulative: two known causes can each be sufficient on their own
            s = self.strip(cur, pred)
            if s == cur:
                continue
            cur = s
            if self.panic_key(ex, cur) != key:
                return (name, f"C09:{name}:{sym}", detail + f" [attributed: {why}]")
        # panics as a plain program, with every command, interrupt and burst removed?
        def not_plain(st):
            return st["op"] != "send" or self.describe(st) != "run"
        s3 = [dict((k, v) for k, v in st.items() if k != "faults") for st in self.strip(steps, not_plain)]
        if self.panic_key(ex, s3) == key:
            msg = key[len("C09:panic:"):]
            return ("plain-evaluation-panic", "C09:plain-evaluation-panic:" + msg,
                    detail + " [attributed: the same panic happens as a plain program without any command or interrupt - C02 territory]")
        return (cls, key, detail)


    # ---- confirmation against the real process ------------------------------
    def confirm_real(self, ctx, steps, sim_res):
        """Replays the history against the real `garden-verif json` process in
        lockstep (one request, wait for its response) and reports whether the
        process really stops answering.  Mid-evaluation interrupts are delivered
        through VERIF_FAULTS=interrupt@K with K the global step index taken from
        the simulated run.  Returns (confirmed: bool|None, note)."""
        import select
        import subprocess
        import time
        full = list(steps) + [{"op": "send", "raw": run_req(e, 900001 + i)} for i, e in enumerate(EPILOGUE)]
        ks = []
        seen = 0
        for st, rs in zip(full, sim_res.get("steps", [])):
            for rd in rs["rounds"]:
                for f in rd["fired"]:
                    ks.append(seen + f["at"])
                seen += rd["steps"]
        if any(st["op"] == "burst" and any(is_interrupt_request(r) for r in st["raws"]) for st in full):
            return None, "history has an interrupt inside a burst: not replayable in lockstep"
        env = dict(os.environ)
        env["NO_COLOR"] = "1"
        if ks:
            env["VERIF_FAULTS"] = ",".join(f"interrupt@{k}" for k in ks)
        p = subprocess.Popen([common.BIN, "json"], cwd=ctx["dir"], env=env, stdin=subprocess.PIPE,
                             stdout=subprocess.PIPE, stderr=subprocess.PIPE)
        buf = b""

        def read_responses(n, timeout):
            nonlocal buf
            got = []
            deadline = time.time() + timeout
            while len(got) < n:
                while b"\n" in buf and len(got) < n:
                    line, buf = buf.split(b"\n", 1)
                    try:
                        d = json.loads(line)
                    except Exception:
                        continue
                    k = d.get("kind", {})
                    if "printed" in k or "printed_stderr" in k or "ready" in k:
                        continue
                    got.append(d)
                if len(got) >= n:
                    break
                rem = deadline - time.time()
                if rem <= 0 or p.poll() is not None and not select.select([p.stdout], [], [], 0)[0]:
                    break
                r, _, _ = select.select([p.stdout], [], [], min(rem, 0.5))
                if r:
                    chunk = os.read(p.stdout.fileno(), 65536)
                    if not chunk:
                        break
                    buf += chunk
            return got

        def send(raw):
            b = raw.encode()
            p.stdin.write(b"Content-Length: " + str(len(b)).encode() + b"\n" + b)
            p.stdin.flush()
        note = "the real process answered every request"
        confirmed = False
        try:
            for si, st in enumerate(full):
                raws = [st["raw"]] if st["op"] == "send" else (st.get("raws") or ["{\"method\":\"interrupt\"}"])
                try:
                    for r in raws:
                        send(r)
                except (BrokenPipeError, OSError):
                    confirmed = True
                    note = f"the real process was gone when request #{si} was sent (exit status {p.poll()})"
                    break
                got = read_responses(len(raws), 20.0)
                if len(got) < len(raws):
                    confirmed = True
                    note = (f"the real process answered {len(got)} of {len(raws)} for request #{si} "
                            f"({self.describe(st)}) within 20 s; exit status {p.poll()}; stderr {p.stderr.read(400) if p.poll() is not None else b''!r}")
                    break
        finally:
            try:
                p.kill()
            except Exception:
                pass
            p.wait()
        return confirmed, note

    def replay(self, ctx, rp):
        res = ctx["ex"].run(self.scenario(rp["steps"]))
        out = []
        for c, k, d, _, *rest in self.judge(rp["steps"], res)[:1]:
            if c == "panic":
                c, k, d = self.attribute(ctx["ex"], rp["steps"], c, k, d, rest[0])
            out.append({"class": c, "key": k, "detail": d, "replay": rp})
        return out

    def minimise(self, ctx, v):
        key = v["key"]
        steps = list(v["replay"]["steps"])
        budget = 200

        def fails(cand):
            got = self.replay(ctx, {"steps": cand})
            return bool(got) and got[0]["key"] == key

        # drop everything after the failing request first
        changed = True
        while changed and budget > 0:
            changed = False
            for i in range(len(steps) - 1, -1, -1):
                cand = steps[:i] + steps[i + 1:]
                budget -= 1
                if budget <= 0:
                    break
                if fails(cand):
                    steps = cand
                    changed = True
        # drop faults
        for i, st in enumerate(steps):
            if st.get("faults"):
                cand = [dict(s) for s in steps]
                cand[i] = {k: val for k, val in st.items() if k != "faults"}
                if fails(cand):
                    steps = cand
        got = self.replay(ctx, {"steps": steps})
        again = self.replay(ctx, {"steps": steps})
        if got and again and got[0]["key"] == key and again[0]["detail"] == got[0]["detail"]:
            nv = dict(v)
            nv["replay"] = {"steps": steps}
            nv["detail"] = got[0]["detail"] + " | minimised history: " + json.dumps(
                [s.get("raw", s.get("raws", s["op"])) for s in steps])[:1200]
            v = nv
        if v["class"] in ("panic", "plain-evaluation-panic") or v["class"].startswith("panic"):
            sim = ctx["ex"].run(self.scenario(v["replay"]["steps"]))
            ok, note = self.confirm_real(ctx, v["replay"]["steps"], sim)
            v = dict(v)
            v["detail"] += f" | real `garden-verif json` process: {'CONFIRMED - ' if ok else ('not replayable - ' if ok is None else 'NOT confirmed - ')}{note}"
            v["confirmed_on_real_process"] = ok
        return v


PROP = C09()
