"""C08 - an evaluation interrupted anywhere resumes to the same outcome.

fault_enumeration: for each generated program the set of crash points (its
evaluation steps) is enumerated completely (or, for long programs in the
quick tier, sampled - and the evidence then says so).
"""
import json
import re

import common
from common import Rng, mix, run_req, final_response, printed, outcome
from gen import gen_prog
from props.base import SessimProp

RESUME = run_req(":resume")


def base_steps(defs, main, with_resume_after_error=False):
    steps = [
        {"op": "send", "raw": run_req(defs)},
        {"op": "send", "raw": run_req(main), "trace": True},
    ]
    return steps


def summarize(res):
    """Observable summary of the traced part of a scenario result
    (step index 1 onwards)."""
    out = []
    rounds = []
    for st in res["steps"][1:]:
        for rd in st["rounds"]:
            rounds.append(rd)
    text = "".join(printed(rd) for rd in rounds)
    last = final_response(rounds[-1]) if rounds else None
    oc = outcome(last)
    if oc[0] == "err":
        # An assertion failure is reported as "Assertion failed" by the first
        # path and with detail by the resume path: compare kind and position.
        msg = oc[1]
        if msg == "Assertion failed" or (isinstance(msg, str) and msg.startswith("Expected")):
            pass
        oc = ("err", msg, oc[2], oc[3])
    return {
        "printed": text,
        "outcome": list(oc),
        "trace_hash": res["trace_hash"],
        "trace_len": res["trace_len"],
        "rounds": rounds,
        "dead": res["dead"],
    }


def _value_only(oc):
    """A request that also loads definitions wraps its value in a summary ("Loaded f in x.gdn, and the
    expression evaluated to V."); the response of a :resume reports V alone."""
    if oc and oc[0] == "ok" and isinstance(oc[1], str):
        m = re.search(r", and the expression evaluated to (.*)\.$", oc[1], re.S)
        if m:
            return [oc[0], m.group(1)] + list(oc[2:])
    return list(oc)


def same_outcome(a, b):
    if a == b or _value_only(a) == _value_only(b):
        return True
    # assertion failures: first path says "Assertion failed", resume path gives the detail
    if a[0] == "err" and b[0] == "err" and a[2:] == b[2:]:
        if a[1] == "Assertion failed" or b[1] == "Assertion failed":
            return True
    return False


class C08(SessimProp):
    id = "C08"
    name = "c08"
    level = "fault_enumeration"
    counts = {"quick": 160, "thorough": 4000}
    wall_caps = {"quick": 200, "thorough": 1500}
    rule = ("case = one generated terminating program (definitions request + expression request); for it, every evaluation "
            "step k is a crash point: fresh session, interrupt delivered by the real reader code exactly before step k, "
            "then :resume until done; the same with the interrupt arriving WHILE step k executes (hook H2b, after the "
            "evaluator's own check); plus interrupt-at-every-step in one session, random multi-point plans and "
            "double interrupts. evaluations = simulated sessions. distinct_nontrivial = distinct (program hash, fault plan) "
            "pairs in which at least one interrupt fired and the resumed run was compared with the uninterrupted one")
    expected_probes = ["in_for_body", "in_while", "depth>=3", "first_step", "last_step", "at_return",
                       "at_break_continue", "in_closure_or_fun", "in_match", "partially_evaluated"]

    def gen_case(self, rng, tier, index):
        size = rng.randint(5, 16) if tier == "quick" else rng.randint(5, 30)
        defs, main = gen_prog(rng.fork("prog"), size=size, shell=rng.fork("shell").chance(0.25))
        if rng.chance(0.2):
            # "same result OR ERROR": end the program in one of the runtime-error sites
            import sites
            key, imports, expr = rng.choice(sites.all_sites())
            pdefs, top = sites.place(expr, rng.choice(sites.PLACEMENTS), tag="w")
            defs = "\n".join(x for x in [imports, sites.LANG_DEFS, pdefs, defs] if x)
            main = main[:-1] + [top]
        elif rng.chance(0.25):
            # the request ends in a statement rather than an expression: a toplevel loop, an update
            tail = rng.choice(["for zq in [1, 2, 3] { println(\"zl:\" ^ string_repr(zq)) }",
                               "let zw = 0 while zw < 3 { zw += 1 println(\"zw:\" ^ string_repr(zw)) }",
                               "for zq in [4, 5] { if zq > 4 { break } println(\"zb\") }",
                               "let zu = 1 zu += 2", "if 1 < 2 { println(\"zi\") }"])
            main = main[:-1] + [tail] if rng.chance(0.5) else main + [tail]
        layout = rng.fork("layout").weighted([(6, "two"), (2, "one_with_path"), (2, "two_with_path")])
        return {"defs": defs, "main": main, "plan_seed": rng.u64(), "tier": tier, "layout": layout}

    # ---- running one plan -------------------------------------------
    def scenario(self, defs, main_src, plan, layout="two"):
        plain = common.run_req
        path = None
        if layout == "one_with_path":
            # definitions and code arrive in ONE request that names a file the session has not seen:
            # the toplevel moves to that file's namespace while (or after) the request is evaluated
            steps = [{"op": "send", "raw": plain("0")}]
            main_src = defs + "\n" + main_src
            path = "proj/c08_main.gdn"
        elif layout == "two_with_path":
            path = "proj/c08_main.gdn"
            steps = [{"op": "send", "raw": plain(defs, path=path)}]
        else:
            steps = [{"op": "send", "raw": plain(defs)}]

        def run_req(src, rid=None):  # the requests of this scenario carry the path
            return plain(src, rid, path=path)
        kind = plan["kind"]
        if kind == "baseline":
            steps.append({"op": "send", "raw": run_req(main_src), "trace": True})
        elif kind == "multi":
            ks = plan["ks"]  # absolute positions (1-based) in the baseline trace, increasing
            fk = plan.get("fault", "interrupt")
            steps.append({"op": "send", "raw": run_req(main_src), "trace": True,
                          "faults": [{"at": ks[0], "kind": fk}]})
            per_round = []
            for i in range(1, len(ks)):
                per_round.append([{"at": ks[i] - ks[i - 1] + 1, "kind": fk}])
            steps.append({"op": "resume_loop", "raw": RESUME, "trace": True, "faults_by_round": per_round,
                          "max": len(ks) + 5})
        elif kind == "every":
            steps.append({"op": "send", "raw": run_req(main_src), "trace": True,
                          "faults": [{"at": 1, "kind": "interrupt"}]})
            steps.append({"op": "resume_loop", "raw": RESUME, "trace": True,
                          "faults": [{"at": 2, "kind": "interrupt"}], "max": plan["n"] + 10})
        elif kind == "resume_after_error":
            # baseline ended in an error; interrupt the re-execution that :resume starts
            steps.append({"op": "send", "raw": run_req(main_src), "trace": False})
            st = {"op": "send", "raw": RESUME, "trace": True}
            if plan.get("k"):
                st["faults"] = [{"at": plan["k"], "kind": "interrupt"}]
            steps.append(st)
            steps.append({"op": "resume_loop", "raw": RESUME, "trace": True, "faults": [], "max": 5})
        return {"steps": steps, "step_budget": 60000}

    def compare(self, base, got, plan, n_interrupts_expected):
        """Returns (class, detail) or None."""
        if got.get("executor_died"):
            return ("simulator-process-died", json.dumps(got)[:300])
        s = summarize_cached(got)
        b = base
        if s["dead"]:
            pan = [rd.get("panic") for rd in s["rounds"] if rd.get("panic")]
            return ("panic-after-interrupt", f"eval thread panicked: {pan}")
        if s["printed"] != b["printed"]:
            return ("output-differs", f"printed {s['printed']!r} != uninterrupted {b['printed']!r}")
        if not same_outcome(s["outcome"], b["outcome"]):
            return ("outcome-differs", f"outcome {s['outcome']} != uninterrupted {b['outcome']}")
        if s["trace_hash"] != b["trace_hash"] or s["trace_len"] != b["trace_len"]:
            return ("step-trace-differs",
                    f"executed-step trace (len {s['trace_len']}) differs from uninterrupted (len {b['trace_len']}): "
                    "a step was lost, repeated or reordered")
        fired = sum(len(rd["fired"]) for rd in s["rounds"])
        stopped = sum(1 for rd in s["rounds"] if rd["stopped_by_interrupt"])
        if n_interrupts_expected is not None and fired == n_interrupts_expected and stopped != fired:
            return ("interrupt-count", f"{fired} interrupts delivered but {stopped} stops reported")
        for rd in s["rounds"]:
            if rd["flag_after"]:
                return ("flag-left-set", "interrupt flag still set after the request was answered")
            # exactly one worker response per request
            n_resp = len(common.worker_responses(rd))
            if n_resp != 1:
                return ("response-count", f"{n_resp} worker responses for one request")
            acks = [e for e in rd["events"] if e["src"] == "reader"]
            nf = sum(2 if f["kind"] == "double" else 1 for f in rd["fired"])
            if len(acks) != nf:
                return ("ack-count", f"{len(acks)} interrupt acks for {nf} interrupt requests")
        return None

    def run_plan(self, ex, case, plan, base):
        sc = self.scenario(case["defs"], " ".join(case["main"]), plan, case.get("layout", "two"))
        res = ex.run(sc)
        if plan["kind"] == "multi":
            n_exp = len(plan["ks"])
        elif plan["kind"] == "every":
            n_exp = None
        else:
            n_exp = None
        return res, self.compare(base, res, plan, n_exp)

    def baseline(self, ex, case, after_error=False):
        plan = {"kind": "resume_after_error"} if after_error else {"kind": "baseline"}
        res = ex.run(self.scenario(case["defs"], " ".join(case["main"]), plan, case.get("layout", "two")))
        if res.get("executor_died"):
            return None, res
        return summarize_cached(res), res

    def run_case(self, ctx, case):
        ex = ctx["ex"]
        stats = {}
        out = {"evaluations": 0, "nontrivial": [], "violations": [], "stats": stats, "sim_steps": 0, "sample": None}

        def bump(k, n=1):
            stats[k] = stats.get(k, 0) + n

        base, raw = self.baseline(ex, case)
        out["evaluations"] += 1
        if base is None:
            bump("baseline_simulator_died")
            return out
        if base["dead"]:
            bump("baseline_panicked(C02 territory, skipped)")
            return out
        n = base["rounds"][0]["steps"]
        if base["rounds"][0]["budget_exceeded"] or n == 0:
            bump("baseline_budget_exceeded_or_empty")
            return out
        out["sim_steps"] += n
        bump("programs")
        bump("baseline_outcome:" + base["outcome"][0])
        prog_hash = common.stable_hash([case["defs"], case["main"]])
        rng = Rng(case["plan_seed"])
        tier = case["tier"]

        # (a) every single k
        limit = 400 if tier == "quick" else 3000
        if n <= limit:
            ks = list(range(1, n + 1))
            bump("programs_enumerated_exhaustively")
        else:
            ks = list(range(1, 101)) + sorted(rng.sample(range(101, n + 1), min(200, n - 100)))
            bump("programs_sampled")
        plans = [{"kind": "multi", "ks": [k]} for k in ks]
        # (b) every step in one session
        if n <= 1500:
            plans.append({"kind": "every", "n": n})
        # (c) random subsets of 2..8 points
        for _ in range(4 if tier == "quick" else 12):
            m = rng.randint(2, min(8, max(2, n)))
            pts = sorted(set(rng.randint(1, n) for _ in range(m)))
            if len(pts) >= 2:
                plans.append({"kind": "multi", "ks": pts})
        # (d) double interrupts
        for _ in range(3 if tier == "quick" else 8):
            plans.append({"kind": "multi", "ks": [rng.randint(1, n)], "fault": "double"})
        # (f) the interrupt arrives WHILE step k executes (after the evaluator's own check at the top
        # of the step): it must stay pending until step k+1 and nothing inside step k may be undone
        if n >= 2:
            mids = list(range(1, n)) if (tier != "quick" or n <= 120) else sorted(rng.sample(range(1, n), 120))
            plans += [{"kind": "multi", "ks": [k], "fault": "mid"} for k in mids]

        for plan in plans:
            res, v = self.run_plan(ex, case, plan, base)
            out["evaluations"] += 1
            if not res.get("executor_died"):
                fired_any = False
                for st in res["steps"][1:]:
                    for rd in st["rounds"]:
                        out["sim_steps"] += rd["steps"]
                        for f in rd["fired"]:
                            fired_any = True
                            bump("fault:" + f["kind"])
                            bump(f"site:{f['expr']}/{f['state']}/d{min(f['depth'], 4)}")
                            self.probe(f, n, bump, plan)
                if fired_any:
                    out["nontrivial"].append(mix(prog_hash, common.stable_hash(plan)))
            if v is not None:
                cls, detail = v
                out["violations"].append({
                    "class": cls,
                    "key": f"C08:{cls}",
                    "detail": detail,
                    "replay": {"defs": case["defs"], "main": case["main"], "plan": plan, "layout": case.get("layout", "two")},
                })
                if len(out["violations"]) >= 3:
                    break

        # (e) interrupt during the :resume of an error stop
        if base["outcome"][0] == "err" and not out["violations"]:
            b2, raw2 = self.baseline(ex, case, after_error=True)
            out["evaluations"] += 1
            if b2 is not None and not b2["dead"]:
                n2 = b2["rounds"][1]["steps"] if len(b2["rounds"]) > 1 else 0
                for k in range(1, min(n2, 40) + 1):
                    plan = {"kind": "resume_after_error", "k": k}
                    res, v = self.run_plan(ex, case, plan, b2)
                    out["evaluations"] += 1
                    bump("fault:interrupt_during_resume_of_error")
                    out["nontrivial"].append(mix(prog_hash, common.stable_hash(plan)))
                    if v is not None:
                        cls, detail = v
                        out["violations"].append({
                            "class": cls, "key": f"C08:{cls}", "detail": detail,
                            "replay": {"defs": case["defs"], "main": case["main"], "plan": plan, "layout": case.get("layout", "two")}})
                        break
            elif b2 is not None and b2["dead"]:
                bump("resume_after_error_baseline_panicked(C07/C09 territory, skipped)")

        if out["sample"] is None:
            out["sample"] = {"definitions": case["defs"], "expressions": " ".join(case["main"]),
                             "steps": n, "uninterrupted_outcome": base["outcome"],
                             "plans_run": len(plans), "example_plan": plans[len(plans) // 2]}
        return out

    def probe(self, f, n, bump, plan):
        if f["expr"] == "ForIn" or f["expr"] == "While":
            bump("probe:at_loop_header")
        if f["depth"] >= 3:
            bump("probe:depth>=3")
        if f["depth"] >= 2:
            bump("probe:in_closure_or_fun")
        if f["at"] == 1 and plan["kind"] == "multi":
            bump("probe:first_step")
        if plan["kind"] == "multi" and plan["ks"][-1] == n:
            bump("probe:last_step")
        if f["expr"] == "Return":
            bump("probe:at_return")
        if f["expr"] in ("Break", "Continue"):
            bump("probe:at_break_continue")
        if f["expr"] == "Match":
            bump("probe:in_match")
        if f["state"].startswith("PartiallyEvaluated"):
            bump("probe:partially_evaluated")
        if f["expr"] == "ForIn" and f["state"].startswith("PartiallyEvaluated"):
            bump("probe:in_for_body")
        if f["expr"] == "While" and f["state"].startswith("PartiallyEvaluated"):
            bump("probe:in_while")

    # ---- replay and minimisation ------------------------------------
    def replay(self, ctx, rp):
        ex = ctx["ex"]
        case = {"defs": rp["defs"], "main": rp["main"], "layout": rp.get("layout", "two")}
        after_err = rp["plan"]["kind"] == "resume_after_error"
        base, _ = self.baseline(ex, case, after_error=after_err)
        if base is None or base["dead"]:
            return []
        res, v = self.run_plan(ex, case, rp["plan"], base)
        if v is None:
            return []
        cls, detail = v
        return [{"class": cls, "key": f"C08:{cls}", "detail": detail, "replay": rp}]

    def minimise(self, ctx, v):
        """Drop toplevel statements while some single interrupt point still
        produces the same violation class."""
        ex = ctx["ex"]
        cls = v["class"]
        rp = v["replay"]
        main = list(rp["main"])
        defs = rp["defs"]
        budget = [150]

        def fails(main_c, defs_c):
            case = {"defs": defs_c, "main": main_c, "layout": rp.get("layout", "two")}
            base, _ = self.baseline(ex, case)
            if base is None or base["dead"] or not base["rounds"]:
                return None
            n = base["rounds"][0]["steps"]
            for k in range(1, min(n, 300) + 1):
                if budget[0] <= 0:
                    return None
                plan = {"kind": "multi", "ks": [k]}
                budget[0] -= 1
                _, vv = self.run_plan(ex, case, plan, base)
                if vv is not None and vv[0] == cls:
                    return plan, vv[1]
            return None

        best = None
        changed = True
        while changed and budget[0] > 0:
            changed = False
            for i in range(len(main) - 1, -1, -1):
                if len(main) <= 1:
                    break
                cand = main[:i] + main[i + 1:]
                r = fails(cand, defs)
                if r:
                    main = cand
                    best = r
                    changed = True
        dl = defs.split("\n")
        for i in range(len(dl) - 1, -1, -1):
            cand = "\n".join(dl[:i] + dl[i + 1:])
            r = fails(main, cand)
            if r:
                dl = dl[:i] + dl[i + 1:]
                defs = cand
                best = r
        if best:
            plan, detail = best
            nv = dict(v)
            nv["replay"] = {"defs": defs, "main": main, "plan": plan, "layout": rp.get("layout", "two")}
            nv["detail"] = detail
            # confirm twice
            a = self.replay(ctx, nv["replay"])
            b = self.replay(ctx, nv["replay"])
            if a and b and a[0]["class"] == cls and b[0]["class"] == cls and a[0]["detail"] == b[0]["detail"]:
                return nv
        return v


def summarize_cached(res):
    return summarize(res)


PROP = C08()
