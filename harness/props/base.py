"""Base classes for property plug-ins."""
import os
import shutil
import tempfile

import common


class SessimProp:
    engine = "sessim"
    level = "exploration"
    counts = {"quick": 100, "thorough": 1000}
    wall_caps = {"quick": 240, "thorough": 1200}
    expected_probes = []
    real_components = [
        "json_session::handle_request (reader thread body)",
        "json_session::handle_request_in_worker (eval thread body) and everything below it: "
        "command parsing and dispatch, parser, checker, Env, the evaluator and its restore/resume logic",
        "std::sync::mpsc channel between the two",
    ]
    stub_components = [
        "std::thread::spawn of the eval thread and its blocking recv() loop (sequenced by the simulator)",
        "stdin framing loop of json_session() (Content-Length parsing)",
        "process stdout (responses are captured by hook H3 with a global event number)",
    ]
    assumptions = [
        "reader and eval thread share only the interrupt flag, the channel and line-atomic stdout, so every "
        "interleaving is equivalent to the reader acting between two evaluation steps or while the worker is idle",
        "built with the shadow manifest /verif/sim/Cargo.toml (opt-level 2, debug assertions and overflow checks on)",
    ]

    def make_context(self, rank, root=None):
        d, own = common.make_work_dir(self.id, rank, root)
        return {"ex": common.Executor("sessim", d), "dir": d, "own_root": own}

    def close_context(self, ctx):
        ctx["ex"].close()
        shutil.rmtree(ctx.get("own_root") or ctx["dir"], ignore_errors=True)
