"""C26 - test verdicts are independent and the exit status is honest (worldsim)."""
import json
import os
import re
import shutil
import tempfile

import common
import worldsim
from common import Rng, mix

HELPERS = """fun helper_ok(x: Int): Int { x + 1 }
fun helper_throw(d: Int) { if d <= 0 { throw("deep boom") } else { helper_throw(d - 1) + 1 } }
fun helper_typed(s: String): Int { s.len() }
fun helper_badret(): Int { "not an int" }
fun helper_loop(n: Int) { let acc = 0 for i in [1, 2, 3, 4, 5] { acc += i if i == n { throw("in loop") } } acc }
enum Shape { Circle(Int), Square(Int), Dot }
struct Box { v: Int }
method boxed(this: Box): Int { this.v }
"""


def test_body(rng, kind):
    r = rng
    if kind == "pass":
        return r.choice([
            "assert(helper_ok(1) == 2)",
            "let acc = 0 for i in [1, 2, 3] { acc += i } assert(acc == 6)",
            "let b = Box{ v: 4 } assert(b.boxed() == 4)",
            "match Circle(2) { Circle(r) => assert(r == 2) Square(_) => assert(False) Dot => assert(False) }",
            "let i = 0 while i < 5 { i += 1 if i == 3 { break } } assert(i == 3)",
            "assert(helper_loop(9) == 15)",
            "",
        ]), True
    if kind == "assert_fail":
        return r.choice(["assert(1 == 2)", "let x = helper_ok(1) assert(x == 5)", "assert(False)",
                         "let helper_ok = 3 assert(helper_ok == 4)"]), False
    if kind == "throw_deep":
        return f"let before = 1 helper_throw({r.randint(0, 5)}) assert(before == 1)", False
    if kind == "throw_in_blocks":
        return ("let a = 1 if a == 1 { let b = 2 match Some(b) { Some(c) => { for i in [1, 2] { let d = i "
                "if i == 2 { throw(\"nested\") } } } None => {} } }"), False
    if kind == "param_type":
        return "helper_typed(5)", False
    if kind == "return_type":
        return "helper_badret()", False
    if kind == "match_nonexhaustive":
        return "match Dot { Circle(r) => r }", False
    if kind == "loop_error":
        return f"helper_loop({r.randint(1, 5)})", False
    if kind == "unbound":
        return "let q = nosuchvariable + 1", False
    if kind == "heavy_pass":
        n = r.randint(3000, 7000)
        return f"let i = 0 while i < {n} {{ i += 1 }} assert(i == {n})", True
    if kind == "shadow_pass":
        return "let helper_ok = fun(x) { x + 100 } assert(helper_ok(1) == 101)", True
    if kind == "closure_error":
        return "let k = fun(x) { helper_throw(x) } [1, 2].map(k)", False
    raise ValueError(kind)


KINDS = ["pass", "pass", "pass", "assert_fail", "throw_deep", "throw_in_blocks", "param_type", "return_type",
         "match_nonexhaustive", "loop_error", "unbound", "shadow_pass", "closure_error", "heavy_pass"]


def parse_output(stdout):
    failed = {}
    cur = None
    for line in stdout.splitlines():
        m = re.match(r"^Failed: (\S+)(?: (\S+))?$", line)
        if m:
            cur = m.group(1)
            failed[cur] = {"pos": m.group(2), "msg": None}
        elif cur and line.startswith("  "):
            failed[cur]["msg"] = line.strip()
            cur = None
    m = re.search(r"Ran (\d+) tests?: (\d+) passed and (\d+) failed\.", stdout)
    summary = tuple(int(x) for x in m.groups()) if m else None
    if summary is None:
        if "Ran 1 test: it passed." in stdout:
            summary = (1, 1, 0)
        else:
            m = re.search(r"Ran (\d+) tests?: they all passed\.", stdout)
            if m:
                summary = (int(m.group(1)), int(m.group(1)), 0)
    return failed, summary, ("No tests found." in stdout)


class C26:
    id = "C26"
    name = "c26"
    engine = "worldsim"
    level = "exploration"
    counts = {"quick": 120, "thorough": 6000}
    wall_caps = {"quick": 170, "thorough": 1500}
    rule = ("case = a pool of 2..12 generated tests (passing, failing an assert, throwing at call depth 0..5, throwing inside "
            "nested blocks and loops, failed parameter / return annotations, non-exhaustive match, locals shadowing helper "
            "names, errors inside closures) over shared helpers, written to one or two files in a seeded order and run by "
            "the REAL `garden test`: (a) all together, (b) each test alone via -n, (c) a seeded subset via -n, (d) the files "
            "in the other order, (e) with a Ctrl-C injected at step k (VERIF_FAULTS). evaluations = child processes. "
            "distinct_nontrivial = distinct (pool, order, selection / fault) runs in which at least one test failed before "
            "another test ran (so the recovery between tests was exercised) or an interrupt landed")
    expected_probes = ["failing_then_later_test", "interrupt_landed_in_test", "two_files", "same_name_in_two_files", "sandboxed_test_mode", "subset_selection",
                       "selection_none", "alone_runs"]
    real_components = ["the real garden binary (`garden test`), including eval_tests / pop_to_toplevel between tests and "
                       "the exit-status logic; hook H2 only counts steps and sets the Ctrl-C flag at step k when asked"]
    stub_components = ["the world: scratch directory with the generated test files; stdin closed"]
    assumptions = ["names are generated so that `-n tNN_` selects exactly one test",
                   "positions in `Failed:` lines are compared only between runs of the same file layout"]

    def make_context(self, rank, root=None):
        d, own = common.make_work_dir(self.id, rank, root)
        return {"dir": d, "n": 0, "own_root": own}

    def close_context(self, ctx):
        shutil.rmtree(ctx.get("own_root") or ctx["dir"], ignore_errors=True)

    def gen_case(self, rng, tier, index):
        r = rng
        n = r.randint(2, 12)
        pool = []
        for i in range(n):
            kind = r.choice(KINDS)
            body, passes = test_body(r.fork("t", i), kind)
            pool.append({"name": f"t{i:02d}_{kind}", "kind": kind, "body": body, "passes": passes})
        order = list(range(n))
        r.shuffle(order)
        two_files = r.chance(0.3) and n >= 2
        split = r.randint(1, n - 1) if two_files else n
        dup = None
        if two_files and r.chance(0.5):
            # the same test name in both files, passing in one and failing in the other: they are two tests
            a_idx, b_idx = order[:split], order[split:]
            pairs = [(i, j) for i in a_idx for j in b_idx if pool[i]["passes"] != pool[j]["passes"]]
            if pairs:
                dup = list(r.choice(pairs))
        subset = r.choice(["t0", "t1", "_pass", "_throw", "assert", "zzz_none", "t"])
        return {"pool": pool, "order": order, "split": split, "subset": subset, "dup": dup, "sandboxed": r.chance(0.5),
                "fault_k": r.randint(1, 150),
                "token": f"{r.u64():016x}"}

    def files(self, case, swap=False, dup=False):
        order = case["order"]
        a, b = order[:case["split"]], order[case["split"]:]
        rename = {}
        if dup and case.get("dup"):
            # the test of the second file takes the name of one in the first file
            rename[case["dup"][1]] = case["pool"][case["dup"][0]]["name"]

        def render(idx, with_helpers):
            src = HELPERS if with_helpers else ""
            for i in idx:
                t = case["pool"][i]
                src += f"test {rename.get(i, t['name'])} {{\n  {t['body']}\n}}\n\n"
            return src
        fs = [("tests_a.gdn", render(a, True), a)]
        if b:
            fs.append(("tests_b.gdn", render(b, False), b))
        if swap:
            fs.reverse()
        return fs

    def run(self, ctx, case, select=None, swap=False, fault=None, dup=False):
        ctx["n"] += 1
        root = os.path.join(ctx["dir"], f"run{ctx['n']:06d}")
        os.makedirs(root)
        w = worldsim.World(root, case["token"])
        try:
            fs = self.files(case, swap, dup)
            for name, src, _ in fs:
                w.write(name, src)
            argv = [common.BIN, "test"]
            if select is not None:
                argv += ["-n", select]
            argv += [f[0] for f in fs]
            env = w.env()
            log = os.path.join(root, "faults.log")
            if fault:
                env["VERIF_FAULTS"] = f"interrupt@{fault}"
                env["VERIF_FAULTS_LOG"] = log
            res = worldsim.run_child(argv, w.dir, env, stdin_mode="closed", cpu_s=30, wall_s=60)
            res["fault_log"] = open(log).read() if os.path.exists(log) else ""
            res["run_order"] = [i for f in fs for i in f[2]]
            return res
        finally:
            w.cleanup()

    def run_sandboxed(self, ctx, case, only=None, reverse=False):
        """`garden sandboxed-test <file> <offset>`: the offset selects the test it lies in, or all tests
        when it lies in none.  Returns {test name: description} or None."""
        ctx["n"] += 1
        root = os.path.join(ctx["dir"], f"run{ctx['n']:06d}")
        os.makedirs(root)
        w = worldsim.World(root, case["token"])
        try:
            order = list(case["order"])
            if reverse:
                order.reverse()
            src = HELPERS
            offsets = {}
            for i in order:
                t = case["pool"][i]
                offsets[t["name"]] = len(src.encode()) + 6
                src += f"test {t['name']} {{\n  {t['body']}\n}}\n\n"
            src += "// end of file\n"
            w.write("tests_s.gdn", src)
            off = offsets[only] if only is not None else len(src.encode()) - 3
            res = worldsim.run_child([common.BIN, "sandboxed-test", "tests_s.gdn", str(off)], w.dir, w.env(),
                                     stdin_mode="closed", cpu_s=60, wall_s=120)
            if res["signal"] is not None or res["rc"] == 101 or res["killed"]:
                return None, f"rc {res['rc']} signal {res['signal']} killed {res['killed']}: {res['stderr'][-200:]!r}"
            try:
                d = json.loads(res["stdout"].strip().splitlines()[-1])
                return {k: v.get("description") for k, v in d.get("tests", {}).items()}, None
            except Exception:
                return None, f"no JSON summary: {res['stdout'][:200]!r}"
        finally:
            w.cleanup()

    def check_run(self, case, res, selected, what):
        """Internal consistency of one run. Returns (failed dict, violations)."""
        v = []
        if res["signal"] is not None or res["rc"] == 101 or res["killed"]:
            v.append(("crashed", f"{what}: garden test died (rc {res['rc']}, signal {res['signal']}, killed {res['killed']}): "
                                 f"{res['stderr'][-300:]!r}"))
            return {}, v
        failed, summary, none_found = parse_output(res["stdout"])
        if not selected:
            if not none_found or res["rc"] != 0:
                v.append(("no-tests-handling", f"{what}: nothing selected but rc={res['rc']} stdout={res['stdout'][:200]!r}"))
            return failed, v
        if summary is None:
            v.append(("no-summary", f"{what}: no summary line: {res['stdout'][-300:]!r}"))
            return failed, v
        total, p, f = summary
        if total != p + f or f != len(failed):
            v.append(("summary-counts", f"{what}: summary {summary} but {len(failed)} `Failed:` lines ({sorted(failed)})"))
        if (res["rc"] != 0) != (f > 0 or len(failed) > 0):
            v.append(("exit-status", f"{what}: exit status {res['rc']} with {len(failed)} failing test(s) (summary {summary})"))
        return failed, v

    def run_case(self, ctx, case):
        stats = {}
        out = {"evaluations": 0, "nontrivial": [], "violations": [], "stats": stats, "sim_steps": 0, "sample": None}

        def bump(k, n=1):
            stats[k] = stats.get(k, 0) + n

        pool = case["pool"]
        names = [t["name"] for t in pool]
        viol = []
        pool_hash = common.stable_hash([pool, case["order"], case["split"]])

        # (b) each test alone: the reference verdicts
        alone = {}
        for t in pool:
            res = self.run(ctx, case, select=t["name"])
            out["evaluations"] += 1
            bump("probe:alone_runs")
            failed, v = self.check_run(case, res, [t["name"]], f"-n {t['name']}")
            viol += v
            _, summary, _ = parse_output(res["stdout"])
            if summary and summary[0] != 1:
                viol.append(("selection", f"-n {t['name']} ran {summary[0]} tests"))
            alone[t["name"]] = failed.get(t["name"])
            if (t["name"] in failed) == t["passes"]:
                bump("generator_expectation_mismatch")

        def compare(res, selected, what, same_layout):
            failed, v = self.check_run(case, res, selected, what)
            v2 = list(v)
            _, summary, _ = parse_output(res["stdout"])
            if summary and selected and summary[0] != len(selected):
                v2.append(("selection", f"{what}: ran {summary[0]} tests, {len(selected)} selected"))
            for n in selected:
                a = alone.get(n)
                b = failed.get(n)
                if (a is None) != (b is None):
                    v2.append(("verdict-depends-on-context",
                               f"{what}: test {n} {'fails' if b else 'passes'} here but {'fails' if a else 'passes'} when run alone "
                               f"({b or a})"))
                elif a is not None and (a["msg"] != b["msg"] or (same_layout and a["pos"] != b["pos"])):
                    v2.append(("failure-differs", f"{what}: test {n} fails with {b} here but with {a} alone"))
            for n in failed:
                if n not in selected:
                    v2.append(("unselected-test-reported", f"{what}: {n} reported but not selected"))
            return failed, v2

        # (a) all together
        res_all = self.run(ctx, case)
        out["evaluations"] += 1
        failed_all, v = compare(res_all, names, "all tests", True)
        viol += v
        order_names = [pool[i]["name"] for i in res_all["run_order"]]
        first_fail = next((i for i, n in enumerate(order_names) if n in failed_all), None)
        if first_fail is not None and first_fail < len(order_names) - 1:
            bump("probe:failing_then_later_test")
            bump("fault:test_crash_then_next_test", sum(1 for n in order_names[:-1] if n in failed_all))
            out["nontrivial"].append(mix(pool_hash, "all"))
        # (c) subset
        sub = [n for n in names if case["subset"] in n]
        res = self.run(ctx, case, select=case["subset"])
        out["evaluations"] += 1
        _, v = compare(res, sub, f"-n {case['subset']}", True)
        viol += v
        bump("probe:subset_selection" if sub else "probe:selection_none")
        if sub:
            out["nontrivial"].append(mix(pool_hash, "subset", case["subset"]))
        # (d) other file order
        if case["split"] < len(pool):
            bump("probe:two_files")
            res = self.run(ctx, case, swap=True)
            out["evaluations"] += 1
            _, v = compare(res, names, "files swapped", False)
            viol += v
            out["nontrivial"].append(mix(pool_hash, "swapped"))
        # (f) the same test name in both files: still two tests, each with its own verdict
        if case.get("dup") and case["split"] < len(pool) and not viol:
            for swap in (False, True):
                res = self.run(ctx, case, dup=True, swap=swap)
                out["evaluations"] += 1
                bump("probe:same_name_in_two_files")
                what = "one name in both files" + (" (files swapped)" if swap else "")
                if res["signal"] is not None or res["rc"] == 101 or res["killed"]:
                    viol.append(("crashed", f"{what}: rc {res['rc']} signal {res['signal']}"))
                    continue
                _, summary, _ = parse_output(res["stdout"])
                n_failed_lines = len(re.findall(r"^Failed: \S+", res["stdout"], re.M))
                exp_failed = sum(1 for n in names if alone.get(n) is not None)
                if summary is None or summary[0] != len(names) or summary[2] != exp_failed or n_failed_lines != exp_failed:
                    viol.append(("verdict-depends-on-context",
                                 f"{what}: {len(names)} tests of which {exp_failed} fail on their own, but the run reports "
                                 f"summary {summary} with {n_failed_lines} `Failed:` lines"))
                elif (res["rc"] != 0) != (exp_failed > 0):
                    viol.append(("exit-status", f"{what}: exit status {res['rc']} with {exp_failed} failing test(s)"))
            out["nontrivial"].append(mix(pool_hash, "dupname", str(case["dup"])))
        # (g) the same pool under `sandboxed-test` (the IDE's runner: tick and stack limits, sandbox):
        # each test alone (offset inside it) against all of them (offset in no test), both file orders
        viol_s = []
        if case.get("sandboxed") and not viol:
            s_alone = {}
            for t in pool:
                got, err = self.run_sandboxed(ctx, case, only=t["name"])
                out["evaluations"] += 1
                if got is None:
                    viol_s.append(("crashed", f"sandboxed-test on {t['name']} alone: {err}"))
                    break
                if list(got) != [t["name"]]:
                    viol_s.append(("selection", f"sandboxed-test with the offset inside {t['name']} ran {sorted(got)}"))
                    break
                s_alone[t["name"]] = got[t["name"]]
            if len(s_alone) == len(pool):
                bump("probe:sandboxed_test_mode")
                for rev in (False, True):
                    got, err = self.run_sandboxed(ctx, case, reverse=rev)
                    out["evaluations"] += 1
                    what = "sandboxed-test, all tests" + (" (reverse order)" if rev else "")
                    if got is None:
                        viol_s.append(("crashed", f"{what}: {err}"))
                        break
                    if sorted(got) != sorted(names):
                        viol_s.append(("selection", f"{what}: reported {sorted(got)}, the file has {sorted(names)}"))
                        break
                    diff = [n for n in names if got[n] != s_alone[n]]
                    if diff:
                        n0 = diff[0]
                        if all(got[n] == "exceeded resource limit" for n in diff):
                            cls = "sandboxed:tick-budget-shared-between-tests"
                            bump("probe:sandboxed_budget_exhausted_by_earlier_tests")
                        else:
                            cls = "sandboxed:verdict-depends-on-context"
                        viol_s.append((cls, f"{what}: test {n0} is reported `{got[n0]}` but `{s_alone[n0]}` when it is the only "
                                          f"test run (differing tests: {diff})"))
                        break
                out["nontrivial"].append(mix(pool_hash, "sandboxed"))
        # (e) Ctrl-C at step k
        res = self.run(ctx, case, fault=case["fault_k"])
        out["evaluations"] += 1
        m = re.search(r"fired interrupt@(\d+) .*stack=(.*)$", res["fault_log"], re.M)
        if m:
            bump("fault:ctrl_c_at_step")
            stack = m.group(2)
            tm = re.search(r"test (\S+)", stack)
            if res["signal"] is not None or res["rc"] == 101:
                viol.append(("crashed", f"Ctrl-C at step {case['fault_k']}: died rc={res['rc']} signal={res['signal']} {res['stderr'][-200:]!r}"))
            elif tm:
                bump("probe:interrupt_landed_in_test")
                out["nontrivial"].append(mix(pool_hash, "interrupt", case["fault_k"]))
                hit = tm.group(1)
                failed, summary, _ = parse_output(res["stdout"])
                idx = order_names.index(hit) if hit in order_names else None
                if res["rc"] == 0:
                    viol.append(("exit-status", f"Ctrl-C at step {case['fault_k']} inside test {hit}: exit status 0"))
                if hit not in failed:
                    viol.append(("interrupted-test-not-failed", f"Ctrl-C inside test {hit} but it is not reported as failed: {res['stdout'][-300:]!r}"))
                if idx is not None:
                    later = order_names[idx + 1:]
                    rep = [n for n in later if n in failed]
                    if rep:
                        viol.append(("ran-after-interrupt", f"Ctrl-C inside test {hit}, yet later tests {rep} were run and reported"))
                    if summary is None:
                        viol.append(("no-summary", f"Ctrl-C inside test {hit}: no summary line"))
                    else:
                        total, p, f = summary
                        if total != idx + 1 or f != len(failed) or total != p + f:
                            viol.append(("summary-counts", f"Ctrl-C inside test {hit} (#{idx + 1} of {len(order_names)}): summary {summary}, "
                                                           f"{len(failed)} Failed lines"))
                    for n in order_names[:idx]:
                        a = alone.get(n)
                        b = failed.get(n)
                        if (a is None) != (b is None):
                            viol.append(("verdict-depends-on-context", f"with a later Ctrl-C, test {n} changed verdict"))
        viol += viol_s  # judged last, so that a known finding there cannot hide anything else
        for cls, detail in viol[:1]:
            out["violations"].append({"class": cls, "key": f"C26:{cls}", "detail": detail, "replay": {"case": case}})
        out["sample"] = {"tests": [(t["name"], t["body"][:80]) for t in pool[:6]], "order": order_names,
                         "files": 2 if case["split"] < len(pool) else 1, "subset": case["subset"], "fault_k": case["fault_k"],
                         "stdout_all": res_all["stdout"][:400]}
        return out

    def replay(self, ctx, rp):
        r = self.run_case(ctx, rp["case"])
        return r["violations"][:1]

    def minimise(self, ctx, v):
        cls = v["class"]
        case = json.loads(json.dumps(v["replay"]["case"]))

        def fails(c):
            got = self.run_case(ctx, c)["violations"]
            return bool(got) and got[0]["class"] == cls

        i = len(case["pool"]) - 1
        while i >= 0 and len(case["pool"]) > 1:
            cand = json.loads(json.dumps(case))
            del cand["pool"][i]
            cand["order"] = [o if o < i else o - 1 for o in cand["order"] if o != i]
            cand["split"] = min(cand["split"], len(cand["pool"]))
            if fails(cand):
                case = cand
            i -= 1
        a = self.run_case(ctx, case)["violations"]
        b = self.run_case(ctx, case)["violations"]
        if a and b and a[0]["class"] == cls and a[0]["detail"] == b[0]["detail"]:
            nv = dict(v)
            nv["replay"] = {"case": case}
            nv["detail"] = a[0]["detail"] + " | minimised pool: " + json.dumps([(t["name"], t["body"]) for t in case["pool"]])[:700]
            return nv
        return v


PROP = C26()
