"""gen_fault_site: expressions that stop with a runtime error at a designated
point, enumerated from the repository's own declarations of built-ins
(src/__*.gdn are parsed at run time, so new built-ins are picked up)."""
import os
import re

from common import REPO

_DECL = re.compile(
    r"^(?:public\s+)?(fun|method)\s+([a-z_A-Z0-9]+)(?:<[^>]*>)?\((.*?)\)(?:\s*:\s*(.+?))?\s*\{\s*\n\s*__BUILT_IN_IMPLEMENTATION",
    re.M)

NAMESPACES = {"__fs.gdn": "fs", "__shell.gdn": "shell", "__random.gdn": "random", "__reflect.gdn": "reflect",
              "__time.gdn": "time"}


def split_params(s):
    out, depth, cur = [], 0, ""
    for ch in s:
        if ch in "<(":
            depth += 1
        elif ch in ">)":
            depth -= 1
        if ch == "," and depth == 0:
            out.append(cur.strip())
            cur = ""
        else:
            cur += ch
    if cur.strip():
        out.append(cur.strip())
    res = []
    for p in out:
        if ":" in p:
            n, t = p.split(":", 1)
            res.append((n.strip(), t.strip()))
        else:
            res.append((p, "Any"))
    return res


def builtin_catalog():
    """[(kind 'fun'|'method', namespace or None, name, [(param, type)], receiver type or None)]"""
    cat = []
    src_dir = os.path.join(REPO, "src")
    for fn in sorted(os.listdir(src_dir)):
        if not (fn.startswith("__") and fn.endswith(".gdn")):
            continue
        text = open(os.path.join(src_dir, fn)).read()
        ns = NAMESPACES.get(fn)
        for m in _DECL.finditer(text):
            kind, name, params = m.group(1), m.group(2), split_params(m.group(3))
            if kind == "method":
                recv = params[0][1]
                cat.append(("method", ns, name, params[1:], recv))
            else:
                cat.append(("fun", ns, name, params, None))
    return cat


# A well-typed sample value for a declared parameter type.
def good(ty):
    ty = ty.strip()
    if ty == "Int":
        return "3"
    if ty == "String":
        return "\"abc\""
    if ty == "Bool":
        return "True"
    if ty == "Float":
        return "1.5"
    if ty == "Path":
        return "Path{ p: \"verif_nosuch_dir/nosuch.txt\" }"
    if ty.startswith("List<String>"):
        return "[\"a\", \"b\"]"
    if ty.startswith("List<Int>"):
        return "[1, 2]"
    if ty.startswith("List<Path>"):
        return "[]"
    if ty.startswith("List"):
        return "[7, 8, 9]"
    if ty.startswith("Dict"):
        return "Dict[\"k\" => 1]"
    if ty.startswith("Fun<"):
        return "fun(q) { q }"
    if ty.startswith("Option"):
        return "Some(1)"
    if ty.startswith("Result"):
        return "Ok(1)"
    if ty.startswith("("):
        return "(1, 2)"
    return "11"  # generic T


def bad(ty):
    """A value that is NOT of type ty, or None if every value is (generic)."""
    ty = ty.strip()
    if ty in ("Int", "Float", "Bool", "Path") or ty.startswith(("List", "Dict", "Fun<", "Option", "Result", "(")):
        return "\"wrong\""
    if ty == "String":
        return "42"
    return None


# Effectful built-ins are only ever called in a way that fails before the effect.
EFFECTFUL = {"read_line", "run", "write_file", "write_bytes", "copy_file", "remove_file", "remove_dir", "create_dir",
             "set_working_directory", "read_file", "read_file_bytes", "list_directory", "working_directory",
             "get_env", "is_tty", "shell_arguments", "exists", "info", "int", "choose", "unixtime", "throw"}


def builtin_sites():
    """(site key, imports, failing expression)"""
    out = []
    for kind, ns, name, params, recv in builtin_catalog():
        imports = f"import \"__{ns}.gdn\" as {ns}" if ns else ""
        callee = f"{ns}::{name}" if ns else name
        goods = [good(t) for _, t in params]
        if kind == "fun":
            def call(args):
                return f"{callee}({', '.join(args)})"
            base_key = f"fun:{callee}"
        else:
            rv = good(recv)
            def call(args, rv=rv):
                return f"{rv}.{name}({', '.join(args)})"
            base_key = f"method:{recv.split('<')[0]}.{name}"
        # wrong type at argument j
        for j, (_, t) in enumerate(params):
            b = bad(t)
            if b is None:
                continue
            args = list(goods)
            args[j] = b
            out.append((f"{base_key}:wrongtype{j}", imports, call(args)))
        # arity - 1 and + 1
        if params:
            out.append((f"{base_key}:arity-1", imports, call(goods[:-1])))
        out.append((f"{base_key}:arity+1", imports, call(goods + ["99"])))
        if kind == "method":
            # wrong receiver
            out.append((f"{base_key}:wrongreceiver", imports, f"(fun() {{ 5 }}).{name}({', '.join(goods)})"))
    return out


OPERATORS = ["+", "-", "*", "/", "%", "**", "<", "<=", ">", ">=", "&&", "||", "^", "+.", "-.", "*.", "/."]


def operator_sites():
    out = []
    for op in OPERATORS:
        if op in ("&&", "||"):
            goodv, badv = ("True" if op == "&&" else "False"), "7"
        elif op == "^":
            goodv, badv = "\"s\"", "7"
        elif op.endswith(".") and len(op) == 2:
            goodv, badv = "1.5", "7"
        else:
            goodv, badv = "7", "\"s\""
        out.append((f"op:{op}:lhs", "", f"{badv} {op} {goodv}"))
        out.append((f"op:{op}:rhs", "", f"{goodv} {op} {badv}"))
    out.append(("op:/:zero", "", "7 / 0"))
    out.append(("op:%:zero", "", "7 % 0"))
    return out


LANG_DEFS = """struct Sv { x: Int, y: String }
enum Ev { Av, Bv(Int) }
fun typedv(a: Int, b: String): Int { a }
fun badretv(): Int { "notint" }
fun twov(a, b) { a }
method mv(this: Sv, k: Int): Int { this.x + k }
fun badrettypev(): Nosuchtypev { 1 }
fun badparamtypev(a: Nosuchtypev) { a }
method badmethrettypev(this: Sv): Nosuchtypev { this.x }
fun genericretv<T>(a: T): List<T> { a }
"""


def language_sites():
    return [
        ("lang:throw", "", "throw(\"boom\")"),
        ("lang:assert-false", "", "assert(False)"),
        ("lang:assert-cmp", "", "assert(1 + 1 == 3)"),
        ("lang:assert-nonbool", "", "assert(5)"),
        ("lang:unbound-var", "", "nosuchvarv"),
        ("lang:unbound-fun", "", "nosuchfunv(1, 2)"),
        ("lang:missing-field", "", "Sv{ x: 1, y: \"a\" }.zz"),
        ("lang:field-on-int", "", "(3).x"),
        ("lang:missing-method", "", "(3).nosuchmethodv(1)"),
        ("lang:user-arity-1", "", "twov(1)"),
        ("lang:user-arity+1", "", "twov(1, 2, 3)"),
        ("lang:user-param-type0", "", "typedv(\"s\", \"t\")"),
        ("lang:user-param-type1", "", "typedv(1, 2)"),
        ("lang:user-return-type", "", "badretv()"),
        ("lang:user-return-unknown-type", "", "badrettypev()"),
        ("lang:user-param-unknown-type", "", "badparamtypev(1)"),
        ("lang:user-method-return-unknown-type", "", "Sv{ x: 1, y: \"a\" }.badmethrettypev()"),
        ("lang:user-generic-return-type", "", "genericretv(3)"),
        ("lang:closure-return-type", "", "(fun(a): String { a })(1)"),
        ("lang:closure-param-type", "", "(fun(a: String) { a })(1)"),
        ("lang:user-method-arity", "", "Sv{ x: 1, y: \"a\" }.mv()"),
        ("lang:user-method-param", "", "Sv{ x: 1, y: \"a\" }.mv(\"s\")"),
        ("lang:call-nonfunction", "", "(3)(4, 5)"),
        ("lang:closure-arity", "", "(fun(a) { a })(1, 2)"),
        ("lang:if-nonbool", "", "if 3 { 1 } else { 2 }"),
        ("lang:while-nonbool", "", "while 3 { 1 }"),
        ("lang:for-nonlist", "", "for zv in 3 { zv }"),
        ("lang:match-nonexhaustive", "", "match Bv(2) { Av => 1 }"),
        ("lang:match-nonenum", "", "match 3 { Av => 1 Bv(q) => q }"),
        ("lang:struct-field-type", "", "Sv{ x: \"s\", y: \"a\" }"),
        ("lang:struct-missing-field", "", "Sv{ x: 1 }"),
        ("lang:struct-unknown", "", "Nosuchv{ x: 1 }"),
        ("lang:let-hint", "", "{ let hv: Int = \"s\" }"),
        ("lang:assign-undefined", "", "undefv = 1"),
        ("lang:addassign-undefined", "", "undefv += 1"),
        ("lang:addassign-type", "", "{ let sv = \"a\" sv += 1 }"),
        ("lang:let-unknown-type", "", "{ let hv: Nosuchtypev = 1 }"),
        ("lang:for-destructure-len", "", "for (av, bv) in [(1, 2, 3)] { av }"),
        ("lang:for-destructure-len-later", "", "for (av, bv) in [(1, 2), (1, 2, 3)] { av }"),
        ("lang:for-destructure-nontuple", "", "for (av, bv) in [1] { av }"),
        ("lang:tuple-destructure", "", "{ let (av, bv) = 3 }"),
        ("lang:tuple-destructure-len", "", "{ let (av, bv) = (1, 2, 3) }"),
        ("lang:or_throw-none", "", "None.or_throw()"),
        ("lang:or_throw-err", "", "Err(\"e\").or_throw()"),
        ("lang:enum-ctor-arity", "", "Bv(1, 2)"),
        ("lang:namespace-missing", "import \"__fs.gdn\" as fs", "fs::nosuchv(1)"),
        ("lang:dict-key-type", "", "Dict[1 => 2]"),
        ("lang:dict-key-type-later-entry", "", "Dict[\"a\" => 1, 2 => 3, \"c\" => 4]"),
        ("lang:list-append-type-later", "", "[1, 2].append(3).get(\"x\")"),
        ("lang:struct-field-type-later-field", "", "Sv{ x: 1, y: 2 }"),
        ("lang:tuple-field-call", "", "(1, \"a\", 3).nosuchmethodv()"),
        ("lang:return-toplevel", "", "twov(1, return 5)"),
    ]


def all_sites():
    return builtin_sites() + operator_sites() + language_sites()


PLACEMENTS = ["toplevel", "operand", "arg", "fun1", "fun3", "loop", "ifbranch", "matcharm", "closure", "method", "block"]


def place(expr, placement, tag="w"):
    """Returns (definitions, toplevel source) embedding `expr` so that other
    values are pending on the value stack / frames when it fails."""
    pre = f"println(\"pre{tag}\")"
    if placement == "toplevel":
        return "", f"{pre} {expr}"
    if placement == "operand":
        return "", f"{pre} let w{tag} = [10, 20].len() + ({expr})"
    if placement == "arg":
        return f"fun take{tag}(a, b, c) {{ a }}", f"{pre} take{tag}(100, ({expr}), 300)"
    if placement == "fun1":
        return f"fun c1{tag}(p) {{ let l{tag} = p + 1 {pre} {expr} }}", f"c1{tag}(5)"
    if placement == "fun3":
        return (f"fun c1{tag}(p) {{ let l{tag} = p + 1 {pre} {expr} }}\n"
                f"fun c2{tag}(p) {{ let m{tag} = 2 c1{tag}(p + m{tag}) + 1 }}\n"
                f"fun c3{tag}(p) {{ [c2{tag}(p), 4] }}"), f"c3{tag}(5)"
    if placement == "loop":
        return "", f"let acc{tag} = 0 for i{tag} in [1, 2, 3] {{ acc{tag} += i{tag} if i{tag} == 2 {{ {pre} {expr} }} }} acc{tag}"
    if placement == "ifbranch":
        return "", f"let c{tag} = 4 if c{tag} > 3 {{ let d{tag} = 1 {pre} {expr} }} else {{ 0 }}"
    if placement == "matcharm":
        return "", f"match Some(41) {{ Some(v{tag}) => {{ {pre} let u{tag} = v{tag} + 1 {expr} }} None => {{ 0 }} }}"
    if placement == "closure":
        return "", f"let k{tag} = fun(q) {{ {pre} {expr} }} k{tag}(9)"
    if placement == "method":
        return (f"struct P{tag} {{ x: Int }}\n"
                f"method run{tag}(this: P{tag}) {{ let t{tag} = this.x {pre} {expr} }}"), f"P{tag}{{ x: 3 }}.run{tag}()"
    if placement == "block":
        return "", f"{{ let b{tag} = 1 {pre} {expr} }}"
    raise ValueError(placement)
