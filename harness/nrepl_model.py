"""gen_nrepl and the history oracles for C30 / C31 (threadsim)."""
import json
import re

from common import Rng, mix, stable_hash

SESSION_OPS = ("eval", "load-file", "completions", "lookup")


def printer_code(k, m, variant):
    """A finite program that prints self-numbering tokens.  Token j on stdout is
    `e<k>:<j>`, on stderr `E<k>:<j>`; the counters are toplevel variables, so a
    later eval in the same session can read how many prints were executed."""
    c, d, i = f"c{k}", f"d{k}", f"i{k}"
    if variant == "out":
        body = f"{c} += 1 println(\"e{k}:\" ^ string_repr({c}))"
    elif variant == "out_print_first":
        body = f"println(\"e{k}:\" ^ string_repr({c} + 1)) {c} += 1"
    elif variant == "err":
        body = f"{c} += 1 {d} += 1 eprintln(\"E{k}:\" ^ string_repr({d}))"
    elif variant == "both":
        body = (f"{c} += 1 println(\"e{k}:\" ^ string_repr({c})) "
                f"{d} += 1 eprintln(\"E{k}:\" ^ string_repr({d}))")
    elif variant == "fun":
        return (f"fun p{k}(n) {{ println(\"e{k}:\" ^ string_repr(n)) n }} let {c} = 0 let {d} = 0 let {i} = 0 "
                f"while {i} < {m} {{ {i} += 1 {c} = p{k}({c} + 1) }} {c}")
    else:
        body = f"{c} += 1 print(\"e{k}:\" ^ string_repr({c}) ^ \"\\n\")"
    return f"let {c} = 0 let {d} = 0 let {i} = 0 while {i} < {m} {{ {i} += 1 {body} }} {c}"


def gen_conn(rng, bias, conn, kbase, foreign_defs, nops_range=(4, 14)):
    """One connection's client workload.  `foreign_defs` are the k of definers
    of *other* connections (their names must be invisible here)."""
    r = rng
    nsess = r.weighted([(4, 1), (4, 2), (2, 3)])
    nops = r.randint(*nops_range)
    ops = []
    reqs = []  # model: one dict per request op
    k = kbase
    sess_ids = []

    def add(fields, yields=None, **model):
        nonlocal k
        op = {"op": "msg", "fields": fields, "yields": r.randint(0, 5) if yields is None else yields}
        if r.chance(0.25):
            op["chunks"] = sorted(r.randint(1, 999) for _ in range(r.randint(1, 3)))
        elif r.chance(0.3):
            op["glue"] = True  # written back to back with the next request (one TCP segment)
        ops.append(op)
        m = dict(model)
        m["fields"] = fields
        m["conn"] = conn
        m["_op"] = op
        reqs.append(m)
        # a synchronous client waits for the answer before going on
        if isinstance(fields.get("id"), str) and r.chance(bias.get("wait", 0.2)):
            ops.append({"op": "wait", "id": fields["id"], "polls": r.choice([10, 60, 400]), "yields": 0})

    for s in range(nsess):
        k += 1
        add({"op": "clone", "id": f"c{k}"}, kind="clone")
        sess_ids.append(f"garden-{s + 1}")
    closed = set()
    printers = {s: [] for s in sess_ids}
    defined = {s: [] for s in sess_ids}
    ns_switched = set()
    for _ in range(nops):
        k += 1
        s = r.choice(sess_ids)
        kind = r.weighted([
            (bias.get("printer", 6), "printer"), (bias.get("followup", 3), "followup"), (2, "definer"),
            (2, "reader_other"), (1, "reader_same"), (2, "thrower"), (1, "parse_error"), (bias.get("longloop", 2), "longloop"),
            (1, "loadfile"), (1, "completions"), (1, "lookup"), (1, "describe"), (1, "ls"),
            (bias.get("interrupt", 3), "interrupt"), (bias.get("close", 1), "close"), (1, "unknown_op"), (1, "missing_op"),
            (1, "unknown_session"), (1, "no_session"), (1, "noid"), (1, "bigvalue"), (1, "late_clone"),
        ])
        rid = f"r{k}"
        if kind == "printer":
            m = r.randint(0, 30)
            variant = r.choice(["out", "out", "out_print_first", "err", "both", "fun", "print"])
            add({"op": "eval", "id": rid, "session": s, "code": printer_code(k, m, variant)},
                kind="printer", k=k, m=m, variant=variant, session=s)
            printers[s].append(k)
        elif kind == "followup" and printers[s]:
            pk = r.choice(printers[s])
            which = r.choice(["c", "d"])
            add({"op": "eval", "id": rid, "session": s, "code": f"{which}{pk}"}, kind="followup", of=pk, which=which, session=s)
        elif kind == "definer":
            add({"op": "eval", "id": rid, "session": s, "code": f"fun f{k}(x) {{ x + {k} }} let v{k} = {k} v{k}"},
                kind="definer", k=k, session=s)
            defined[s].append(k)
        elif kind == "reader_other":
            others = [(o, dk) for o in sess_ids if o != s for dk in defined[o]] + [("foreign", dk) for dk in foreign_defs]
            if others:
                o, dk = r.choice(others)
                code = r.choice([f"v{dk}", f"f{dk}(1)"])
                add({"op": "eval", "id": rid, "session": s, "code": code}, kind="reader_other", session=s, name=code)
            else:
                add({"op": "eval", "id": rid, "session": s, "code": "1 + 1"}, kind="plain", session=s, value="2")
        elif kind == "reader_same" and defined[s]:
            dk = r.choice(defined[s])
            add({"op": "eval", "id": rid, "session": s, "code": f"f{dk}(v{dk})"}, kind="reader_same", session=s, dk=dk)
        elif kind == "thrower":
            n = r.randint(0, 3)
            code = f"let c{k} = 0 " + " ".join(f"c{k} += 1 println(\"e{k}:\" ^ string_repr(c{k}))" for _ in range(n))
            code += f" throw(\"boom{k}\")"
            add({"op": "eval", "id": rid, "session": s, "code": code}, kind="thrower", k=k, m=n, session=s)
            printers[s].append(k)
        elif kind == "parse_error":
            add({"op": "eval", "id": rid, "session": s, "code": r.choice(["let = 5", "fun (", "1 +", "{"])},
                kind="parse_error", session=s)
        elif kind == "longloop":
            n = r.randint(10, 80)
            add({"op": "eval", "id": rid, "session": s, "code": f"let j{k} = 0 while j{k} < {n} {{ j{k} += 1 }} j{k}"},
                kind="longloop", n=n, session=s)
        elif kind == "loadfile":
            code = f"fun lf{k}() {{ {k} }} println(\"e{k}:1\") lf{k}()"
            f = {"op": "load-file", "id": rid, "session": s, "file": code}
            if r.chance(0.3):
                f["file-path"] = f"lf{k}.gdn"
                ns_switched.add(s)
            add(f, kind="loadfile", k=k, session=s, switched="file-path" in f)
        elif kind == "completions":
            add({"op": "completions", "id": rid, "session": s, "prefix": r.choice(["v", "f", "pri", ""])},
                kind="completions", session=s)
        elif kind == "lookup":
            cand = [dk for o in sess_ids for dk in defined[o]]
            sym = f"f{r.choice(cand)}" if cand and r.chance(0.7) else r.choice(["println", "nosuch"])
            add({"op": "lookup", "id": rid, "session": s, "sym": sym}, kind="lookup", session=s, sym=sym)
        elif kind == "describe":
            f = {"op": "describe", "id": rid}
            if r.chance(0.3):
                f["verbose?"] = 1
            add(f, kind="describe")
        elif kind == "ls":
            add({"op": "ls-sessions", "id": rid}, kind="ls")
        elif kind == "interrupt":
            add({"op": "interrupt", "id": rid, "session": s}, kind="interrupt", session=s)
        elif kind == "close":
            add({"op": "close", "id": rid, "session": s}, kind="close", session=s)
            closed.add(s)
        elif kind == "unknown_op":
            add({"op": "frobnicate", "id": rid, "session": s}, kind="unknown_op")
        elif kind == "missing_op":
            add({"id": rid, "session": s}, kind="missing_op")
        elif kind == "unknown_session":
            add({"op": r.choice(["eval", "interrupt", "close", "completions", "lookup", "load-file"]), "id": rid,
                 "session": "garden-99", "code": "1", "file": "1", "prefix": "p", "sym": "x"}, kind="unknown_session")
        elif kind == "no_session":
            add({"op": r.choice(["eval", "interrupt", "close", "completions"]), "id": rid, "code": "1", "prefix": "p"},
                kind="no_session")
        elif kind == "noid":
            add({"op": "eval", "session": s, "code": "1 + 2"}, kind="noid", session=s)
        elif kind == "bigvalue":
            n = r.randint(5, 60)
            alphabet = r.choice(["x", "x", "x\u00e9", "\u2192x", "x\U0001f600\u00e9"])
            body = "".join(r.choice(alphabet) for _ in range(n))
            f = {"op": "eval", "id": rid, "session": s, "code": "\"" + body + "\""}
            if r.chance(0.6):
                f["nrepl.middleware.print/stream?"] = 1
                f["nrepl.middleware.print/buffer-size"] = r.randint(1, 16)
            if r.chance(0.5):
                f["nrepl.middleware.print/quota"] = r.randint(1, 40)
            add(f, kind="bigvalue", n=n, body=body, session=s)
        elif kind == "late_clone":
            add({"op": "clone", "id": rid}, kind="clone")
            sess_ids.append(f"garden-{len(sess_ids) + 1}")
            printers[sess_ids[-1]] = []
            defined[sess_ids[-1]] = []
        else:
            add({"op": "eval", "id": rid, "session": s, "code": "1 + 1"}, kind="plain", session=s, value="2")

    if r.chance(0.25):
        # Ctrl-C in the server's terminal (the watchdog broadcasts it to every session)
        ops.insert(r.randint(1, len(ops)), {"op": "sigint", "yields": r.randint(0, 3)})
    if r.chance(0.1):
        # something that is valid bencode but not a request dict: ignored by the server
        ops.insert(r.randint(0, len(ops)), {"op": "raw", "value": r.choice([[1, 2], 7, "hello", []]), "yields": r.randint(0, 2)})
    if r.chance(0.15):
        ops.insert(r.randint(nsess, len(ops)), {"op": "disconnect", "yields": r.randint(0, 3)})
    codec = {}
    if r.chance(0.5):
        codec = {"read_interrupted_permille": r.choice([0, 20, 100]),
                 "read_short_permille": r.choice([0, 100, 500]),
                 "write_interrupted_permille": r.choice([0, 20, 100]),
                 "write_short_permille": r.choice([0, 100, 500]),
                 "eof_mid_message": r.chance(0.15)}
    for m in reqs:
        op = m.pop("_op")
        m["op_index"] = next(i for i, o in enumerate(ops) if o is op)
    cs = {"ops": ops, "codec": codec, "drop_receiver_after": r.randint(1, 12) if r.chance(0.05) else None}
    defs = [m["k"] for m in reqs if m["kind"] == "definer"]
    return cs, reqs, defs


def gen_nrepl(rng, bias):
    """Returns a threadsim scenario (without scheduler fields) and its model:
    one or two client connections served concurrently by the same server."""
    r = rng
    nconn = r.weighted([(7, 1), (3, 2)])
    conns, reqs, defs = [], [], []
    for c in range(nconn):
        cs, rq, df = gen_conn(r.fork(f"conn{c}"), bias, c, 100 * c, list(defs),
                              nops_range=(4, 14) if nconn == 1 else (3, 9))
        conns.append(cs)
        reqs.extend(rq)
        defs.extend(df)
    sc = {"conns": conns, "timer_permille": r.choice([20, 100, 300, 600]),
          "step_budget": 20000, "max_steps": 3000000}
    return sc, reqs


# ----------------------------------------------------------------------
# log helpers
# ----------------------------------------------------------------------

def has_status(msg, s):
    st = msg.get("status")
    return isinstance(st, list) and s in st


class ConnView:
    """One connection of a threadsim run, as the oracles see it."""

    def __init__(self, run, c):
        self.run = run
        self.conn = c
        self.sc = run.sc["conns"][c]
        self.res = run.res
        self.reqs = [m for m in run.reqs if m.get("conn", 0) == c]
        self.events = [e for e in run.events if e.get("_conn") == c]
        self.wire = [e for e in self.events if e["k"] == "WIRE"]
        self.desync = None
        self.lost = None
        # The server reads until EOF, so the requests it reads must be exactly the dict
        # messages the client sent completely, in the order sent.
        sent = [e["op_index"] for e in self.events
                if e["k"] == "CLIENT-SEND" and not e.get("cut") and self.sc["ops"][e["op_index"]]["op"] == "msg"]
        got = [e for e in self.events if e["k"] == "REQ"]
        self.processed = set()
        for n, oi in enumerate(sent):
            want = self.sc["ops"][oi]["fields"]
            if n >= len(got):
                if run.res.get("outcome") == "ok":
                    self.lost = (f"connection {c}: the client sent {len(sent)} complete requests but the server read only "
                                 f"{len(got)}; first one never read: {json.dumps(want)[:200]}")
                break
            e = got[n]
            if e["msg"].get("id") != want.get("id") or e["msg"].get("op") != want.get("op"):
                self.lost = (f"connection {c}: request #{n} read by the server is {json.dumps(e['msg'])[:160]} but the client "
                             f"sent {json.dumps(want)[:160]} (a request was dropped, duplicated or garbled on the way in)")
                break
            self.processed.add(oi)
        if self.lost is None and len(got) > len(sent):
            self.lost = f"connection {c}: the server read {len(got)} requests but the client sent only {len(sent)} complete ones"
        self.writer_died = any(e["k"] == "WRITER-DIED" for e in self.events)
        self.by_id = {}
        for w in self.wire:
            i = w["msg"].get("id")
            if isinstance(i, str):
                self.by_id.setdefault(i, []).append(w)
        self.budget_hit = run.budget_hit
        # which sessions existed when each request was handled (for dispatch modelling)
        self.live = {}
        live = set()
        created = 0
        for m in sorted(self.reqs, key=lambda m: m["op_index"]):
            if m["op_index"] not in self.processed:
                continue
            f = m["fields"]
            self.live[m["op_index"]] = set(live)
            if f.get("op") == "clone":
                created += 1
                live.add(f"garden-{created}")
            if f.get("op") == "close" and f.get("session") in live:
                live.discard(f["session"])

    def done_of(self, rid):
        return [w for w in self.by_id.get(rid, []) if has_status(w["msg"], "done")]


class Run:
    """Indexed view of one threadsim result: events annotated with the
    connection and session they belong to, one ConnView per connection."""

    def __init__(self, sc, reqs, res):
        self.sc, self.reqs, self.res = sc, reqs, res
        self.events = res.get("events", [])
        ptr2 = {}
        for e in self.events:
            if "conn" in e:
                e["_conn"] = e["conn"]
                if "session" in e:
                    e["_sess"] = e["session"]
                    if "ptr" in e:
                        ptr2[e["ptr"]] = (e["conn"], e["session"])
            elif "ptr" in e and e["ptr"] in ptr2:
                e["_conn"], e["_sess"] = ptr2[e["ptr"]]
        self.budget_hit = any(e["k"] == "BUDGET" for e in self.events)
        self.unresolved = [e for e in self.events if e["k"] in ("R", "C") and "_conn" not in e]
        self.views = [ConnView(self, c) for c in range(len(sc["conns"]))]
        self.wire = [e for e in self.events if e["k"] == "WIRE"]
        self.writer_died = any(v.writer_died for v in self.views)


def _per_conn(fn):
    def wrapped(run):
        if isinstance(run, ConnView):
            return fn(run)
        out = []
        if run.unresolved and run.res.get("outcome") == "ok":
            return [("model-desync", f"{len(run.unresolved)} worker events of a session the connection registry never listed: "
                                     f"{run.unresolved[0]}")]
        for v in run.views:
            out.extend(fn(v))
            if out:
                break
        return out
    wrapped.__doc__ = fn.__doc__
    return wrapped


@_per_conn
def check_c30(run):
    """Returns list of (class, detail)."""
    out = []
    if run.res["outcome"] != "ok":
        oc = run.res["outcome"]
        cls = "deadlock" if "deadlock" in oc.lower() else ("step-limit" if "exceeded" in oc.lower() or "max_steps" in oc.lower()
                                                         else "server-thread-panicked")
        return [(cls, f"the simulated server did not terminate cleanly: {oc[:500]}")]
    if run.lost:
        return [("request-lost", run.lost)]
    if run.writer_died or run.budget_hit:
        return out
    seen_order = {}
    for m in run.reqs:
        f = m["fields"]
        rid = f.get("id")
        if m["op_index"] not in run.processed or not isinstance(rid, str):
            continue
        msgs = run.by_id.get(rid, [])
        dones = [w for w in msgs if has_status(w["msg"], "done")]
        if len(dones) != 1:
            out.append(("done-count", f"request {rid} ({m['kind']}: {json.dumps(f)[:160]}) got {len(dones)} `done` messages: "
                                      f"{[w['msg'] for w in msgs][:6]}"))
            continue
        if msgs[-1] is not dones[0]:
            out.append(("message-after-done", f"request {rid} ({m['kind']}): {msgs[-1]['msg']} arrived after its done "
                                              f"{dones[0]['msg']}"))
            continue
        done = dones[0]["msg"]
        st = done["status"]
        if f.get("op") in SESSION_OPS + ("interrupt", "close"):
            live = f.get("session") in run.live.get(m["op_index"], set())
            if live == ("unknown-session" in st):
                out.append(("status-inconsistent", f"request {rid} for session {f.get('session')!r} (exists={live}): status {st}"))
            if not live:
                continue
        kinds = [x for x in ("interrupted", "eval-error") if x in st]
        if len(kinds) > 1:
            out.append(("status-inconsistent", f"request {rid}: status {st}"))
        outs = "".join(w["msg"]["out"] for w in msgs if isinstance(w["msg"].get("out"), str))
        errs = "".join(w["msg"]["err"] for w in msgs if isinstance(w["msg"].get("err"), str))
        values = [w["msg"]["value"] for w in msgs if "value" in w["msg"]]
        if m["kind"] in ("printer", "thrower", "loadfile"):
            k = m["k"]
            toks = [int(x) for x in re.findall(rf"e{k}:(\d+)\n", outs)]
            etoks = [int(x) for x in re.findall(rf"E{k}:(\d+)\n", errs)]
            leftover = re.sub(rf"e{k}:\d+\n", "", outs)
            if leftover:
                out.append(("stdout-garbled", f"eval {rid}: stdout contains {leftover!r} besides its own tokens (all out: {outs!r})"))
            if toks != list(range(1, len(toks) + 1)):
                out.append(("stdout-order", f"eval {rid}: stdout tokens {toks} are not 1..K in order (lost, repeated or reordered)"))
            if etoks != list(range(1, len(etoks) + 1)):
                out.append(("stderr-order", f"eval {rid}: stderr tokens {etoks} are not 1..K in order"))
            completed = not kinds
            if m["kind"] == "printer":
                exp_out = m["m"] if m["variant"] in ("out", "out_print_first", "both", "fun", "print") else 0
                exp_err = m["m"] if m["variant"] in ("err", "both") else 0
                if completed:
                    if len(toks) != exp_out or len(etoks) != exp_err:
                        out.append(("output-incomplete", f"eval {rid} ran to completion (status {st}) and printed {exp_out} stdout / "
                                                         f"{exp_err} stderr tokens, but {len(toks)} / {len(etoks)} arrived before its done"))
                    if values != [str(m["m"])]:
                        out.append(("value-wrong", f"eval {rid} completed: value messages {values}, expected ['{m['m']}']"))
                elif "interrupted" in st:
                    if len(toks) > exp_out or len(etoks) > exp_err:
                        out.append(("output-too-much", f"eval {rid}: more tokens than the program can print"))
                    if values:
                        out.append(("value-after-interrupt", f"eval {rid} was interrupted but has value messages {values}"))
            if m["kind"] == "thrower":
                if "eval-error" in st and len(toks) != m["m"]:
                    out.append(("output-incomplete", f"eval {rid} printed {m['m']} tokens and then threw, but {len(toks)} arrived"))
                if "eval-error" in st and ("ex" not in done or f"boom{k}" not in errs):
                    out.append(("error-missing", f"eval {rid}: eval-error without ex / err text: {done} {errs!r}"))
            if m["kind"] == "loadfile" and completed and (toks != [1] or values != [str(k)]):
                out.append(("output-incomplete", f"load-file {rid}: tokens {toks}, values {values}"))
        if m["kind"] == "longloop" and not kinds and values != [str(m["n"])]:
            out.append(("value-wrong", f"eval {rid}: value {values}, expected {m['n']}"))
        if m["kind"] == "plain" and not kinds and values != [m["value"]]:
            out.append(("value-wrong", f"eval {rid}: value {values}, expected {m['value']}"))
        if m["kind"] == "bigvalue" and not kinds:
            full = ("\"" + m.get("body", "x" * m["n"]) + "\"").encode()
            quota = f.get("nrepl.middleware.print/quota")
            # sizes are in bytes; a value is never cut inside a UTF-8 character
            if quota and len(full) > quota:
                end = quota
                while end > 0 and (full[end] & 0xC0) == 0x80:
                    end -= 1
                exp = full[:end].decode()
            else:
                exp = full.decode()
            if "".join(values) != exp:
                out.append(("value-wrong", f"eval {rid}: value chunks {values} do not concatenate to {exp!r}"))
            if bool("truncated" in st) != bool(quota and len(full) > quota):
                out.append(("status-inconsistent", f"eval {rid}: truncated flag wrong: {st} quota={quota} len={len(full)}"))
            bs = f.get("nrepl.middleware.print/buffer-size")
            if f.get("nrepl.middleware.print/stream?") and bs:
                big = [v for v in values if len(v.encode()) > bs and len(v) > 1]
                if big:
                    out.append(("value-wrong", f"eval {rid}: streamed value chunk {big[0]!r} exceeds buffer-size {bs}"))
        if m["kind"] == "parse_error" and "eval-error" not in st:
            out.append(("status-inconsistent", f"eval {rid} of unparsable code: status {st}"))
        # 5. isolation
        if m["kind"] == "reader_other" and m["session"] in run.live.get(m["op_index"], set()):
            if "interrupted" not in st and ("eval-error" not in st or "No such" not in errs):
                out.append(("isolation", f"eval {rid} in {m['session']} reads {m['name']} defined only in another session: "
                                         f"status {st}, values {values}, err {errs[:120]!r}"))
        if m["kind"] == "completions" and m["session"] in run.live.get(m["op_index"], set()):
            mine = None
            cands = [c.get("candidate") for c in done.get("completions", [])]
            for c in cands:
                mm = re.match(r"^[vf](\d+)$", c or "")
                if mm and not any(r2["kind"] == "definer" and r2["k"] == int(mm.group(1)) and r2["session"] == m["session"]
                                  for r2 in run.reqs):
                    out.append(("isolation", f"completions {rid} in {m['session']} lists {c}, defined only in another session"))
        if m["kind"] == "lookup" and m["session"] in run.live.get(m["op_index"], set()):
            mm = re.match(r"^f(\d+)$", m["sym"])
            if mm and "info" in done and not any(r2["kind"] == "definer" and r2["k"] == int(mm.group(1))
                                                 and r2["session"] == m["session"] for r2 in run.reqs):
                out.append(("isolation", f"lookup {rid} in {m['session']} finds {m['sym']}, defined only in another session"))
        # 4. per-session order of dones (session-bound ops only)
        if f.get("op") in SESSION_OPS and f.get("session") in run.live.get(m["op_index"], set()):
            seen_order.setdefault(f["session"], []).append((m["op_index"], dones[0]["n"], rid))
    for s, lst in seen_order.items():
        ns = [n for _, n, _ in sorted(lst)]
        if ns != sorted(ns):
            out.append(("done-order", f"session {s}: `done`s of its requests are not in request order: {sorted(lst)}"))
    # follow-up: how many prints did an (interrupted) eval really execute?
    for m in run.reqs:
        if m["kind"] != "followup" or m["op_index"] not in run.processed:
            continue
        s = m["session"]
        if s not in run.live.get(m["op_index"], set()):
            continue
        if any(r2["kind"] == "loadfile" and r2.get("switched") and r2["session"] == s for r2 in run.reqs):
            continue
        fd = run.done_of(m["fields"]["id"])
        if len(fd) != 1:
            continue
        fst = fd[0]["msg"]["status"]
        fmsgs = run.by_id.get(m["fields"]["id"], [])
        fvals = [w["msg"]["value"] for w in fmsgs if "value" in w["msg"]]
        ferr = "".join(w["msg"]["err"] for w in fmsgs if isinstance(w["msg"].get("err"), str))
        pm = next((r2 for r2 in run.reqs if r2.get("k") == m["of"] and r2["kind"] in ("printer", "thrower")), None)
        if pm is None or pm["op_index"] not in run.processed or pm["op_index"] > m["op_index"]:
            continue
        pid = pm["fields"]["id"]
        if len(run.done_of(pid)) != 1:
            continue
        pmsgs = run.by_id.get(pid, [])
        pouts = "".join(w["msg"]["out"] for w in pmsgs if isinstance(w["msg"].get("out"), str))
        perrs = "".join(w["msg"]["err"] for w in pmsgs if isinstance(w["msg"].get("err"), str))
        k = pm["k"]
        if m["which"] == "c":
            if pm["kind"] == "printer" and pm["variant"] == "err":
                continue
            got = len(re.findall(rf"e{k}:\d+\n", pouts))
        else:
            if pm["kind"] != "printer" or pm["variant"] not in ("err", "both"):
                continue
            got = len(re.findall(rf"E{k}:\d+\n", perrs))
        if "interrupted" in fst:
            continue
        if "eval-error" in fst and "No such variable" in ferr:
            # An eval interrupted (or failing) inside a function leaves the nREPL session stopped in
            # that frame, and every later eval of the session is evaluated there, where the toplevel
            # counters are not in scope: nothing can be inferred from this answer.
            continue
        if not [x for x in ("interrupted", "eval-error") if x in fst] and len(fvals) == 1 and fvals[0].isdigit():
            executed = int(fvals[0])
            # the counter is bumped just before (or, print-first variant, just after) the print
            lo, hi = executed - 1, executed + 1
        else:
            continue
        if not (lo <= got <= hi):
            out.append(("output-lost", f"eval {pid} executed {executed} prints (its counter, read back by {m['fields']['id']}) "
                                       f"but {got} tokens reached the client before its done"))
    return out


@_per_conn
def check_c31(run):
    """Reference model of the per-session interrupt flag, replayed over the
    totally ordered event log, compared with what each eval really did."""
    out = []
    if run.res["outcome"] != "ok" or run.writer_died or run.budget_hit:
        return out
    # requests dispatched to each session, in dispatch order
    queue = {}
    for m in sorted(run.reqs, key=lambda m: m["op_index"]):
        f = m["fields"]
        if m["op_index"] in run.processed and f.get("op") in SESSION_OPS and f.get("session") in run.live.get(m["op_index"], set()):
            queue.setdefault(f["session"], []).append(m)
    flag = {}
    cur = {}
    idx = {}
    verdict = {}  # (session, e) -> {"must": bool, "checks": n, "extra_checks_after_consume": n}
    for e in run.events:
        k = e["k"]
        if k == "I":
            s = e.get("_sess")
            if s is None:
                continue
            flag[s] = True
        elif k == "R":
            s = e["_sess"]
            flag[s] = False
            idx[s] = idx.get(s, -1) + 1
            cur[s] = idx[s]
            verdict[(s, cur[s])] = {"must": False, "checks": 0, "after": 0, "consumed_at": None}
        elif k == "C":
            s = e["_sess"]
            if s not in cur:
                out.append(("model-desync", f"evaluation step in {s} before its worker dequeued anything"))
                continue
            v = verdict[(s, cur[s])]
            v["checks"] += 1
            if v["must"]:
                v["after"] += 1
            elif flag.get(s):
                flag[s] = False
                v["must"] = True
                v["consumed_at"] = v["checks"]
            if bool(e["flag"]) != bool(v["must"] and v["after"] == 0 and v["consumed_at"] == v["checks"]):
                out.append(("flag-model-mismatch", f"at check {v['checks']} of request #{cur[s]} in {s} the real flag reads "
                                                   f"{e['flag']} but the model of (I, R, C) events says "
                                                   f"{bool(v['must'] and v['consumed_at'] == v['checks'])}"))
    for (s, ei), v in sorted(verdict.items()):
        q = queue.get(s, [])
        if ei >= len(q):
            out.append(("model-desync", f"session {s} dequeued more requests ({ei + 1}) than were dispatched to it ({len(q)})"))
            continue
        m = q[ei]
        rid = m["fields"].get("id")
        if not isinstance(rid, str):
            continue
        d = run.done_of(rid)
        if len(d) != 1:
            continue
        st = d[0]["msg"]["status"]
        actual = "interrupted" in st
        if v["must"] and not actual:
            out.append(("interrupt-lost", f"{m['fields'].get('op')} {rid} in {s}: an interrupt landed while it was executing (before its "
                                          f"check {v['consumed_at']}) but it finished with status {st}"))
        if actual and not v["must"]:
            out.append(("spurious-interrupt", f"{m['fields'].get('op')} {rid} in {s} finished `interrupted` although no interrupt, close, "
                                              f"disconnect or SIGINT for its session landed between its dequeue and its last check "
                                              f"({v['checks']} checks)"))
        if v["after"] > 0:
            out.append(("not-prompt", f"{m['fields'].get('op')} {rid} in {s} executed {v['after']} more step(s) after the check that saw the interrupt"))
    # interrupts for unknown sessions answer unknown-session
    for m in run.reqs:
        f = m["fields"]
        if m["op_index"] in run.processed and f.get("op") == "interrupt" and isinstance(f.get("id"), str):
            d = run.done_of(f["id"])
            if len(d) == 1:
                known = f.get("session") in run.live.get(m["op_index"], set())
                if known == ("unknown-session" in d[0]["msg"]["status"]):
                    out.append(("interrupt-ack", f"interrupt {f['id']} for session {f.get('session')!r} (known={known}) answered {d[0]['msg']['status']}"))
    return out
