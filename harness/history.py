"""gen_history: seeded request histories for the JSON session."""
import json

import sites
from common import Rng, run_req
from gen import gen_prog

READONLY_CMDS = [":locals", ":stack", ":fstmts", ":fvalues", ":globals", ":funs", ":types", ":methods",
                 ":methods String", ":namespace", ":namespaces", ":help", ":help abort", ":version",
                 ":doc println", ":source println", ":search len", ":uptime"]


def command_pool(rng, names):
    """A command string; `names` = dict of known names (funs, vars, tests, locals)."""
    r = rng
    fun = r.choice(names["funs"]) if names["funs"] else "nosuchfun"
    var = r.choice(names["vars"]) if names["vars"] else "nosuchvar"
    test = r.choice(names["tests"]) if names["tests"] else "nosuchtest"
    local = r.choice(names["locals"]) if names["locals"] else "prew"
    opts = [
        (8, ":abort"), (10, ":resume"), (8, ":skip"),
        (4, f":replace {r.randint(0, 50)}"), (2, ":replace \"s\""), (1, ":replace"), (1, ":replace )("),
        (1, f":replace {fun}()"), (1, ":replace nosuchvar"), (1, ":replace throw(\"r\")"),
        (3, f":forget {fun}"), (1, ":forget nosuch"), (1, ":forget"), (1, f":forget {var}"),
        (3, f":forget_local {local}"), (1, ":forget_local nosuch"), (1, ":forget_local"), (1, f":forget_local {var}"),
        (2, ":forget_calls"),
        (3, f":test {test}"), (1, ":test nosuch"), (1, ":test"),
        (2, f":type {var}"), (1, ":type 1 + 1"), (1, ":type"), (1, ":type )("), (1, f":type {fun}"),
        (1, ":type nosuchvar"),
        (3, ":locals"), (3, ":stack"), (3, ":fstmts"), (3, ":fvalues"), (2, ":globals"), (2, ":funs"), (1, ":types"),
        (1, ":methods"), (1, ":methods String"), (1, ":methods Nosuch"), (1, ":namespace"), (1, ":namespaces"),
        (1, ":namespace __prelude.gdn"), (1, ":namespace nosuch.gdn"),
        (1, f":doc {fun}"), (1, ":doc"), (1, ":doc nosuch"), (1, ":doc println"),
        (1, f":source {fun}"), (1, ":source"), (1, ":source nosuch"), (1, ":source println"),
        (1, ":search len"), (1, ":search"), (1, ":parse 1 +"), (1, ":parse"), (1, ":parse fun f() {}"),
        (1, ":help"), (1, ":help abort"), (1, ":help nosuch"),
        (1, ":load world_ok.gdn"), (1, ":load nosuch_file.gdn"), (1, ":load"), (1, ":load ."), (1, ":load world_bad.gdn"),
        (1, ":trace"), (1, ":version"), (1, ":uptime"), (1, ":nosuchcommand"), (1, ":"), (1, ": abort"),
    ]
    cmd = r.weighted(opts)
    # non-ASCII text in and around commands (a no-break or ideographic space after the command name,
    # non-ASCII arguments): requests are UTF-8 and every byte offset the session computes must hold
    k = r.below(14)
    if k == 0 and " " in cmd:
        cmd = cmd.replace(" ", r.choice(["\u00a0", "\u3000", "\u2003", "\t", "  "]), 1)
    elif k == 1:
        cmd = cmd.split(" ")[0] + " " + r.choice(["\u00e9", "caf\u00e9", "\"na\u00efve \U0001f600\"", "\u2192", "\u4e2d\u6587", "x\u0301"])
    elif k == 2:
        cmd = cmd.split(" ")[0] + r.choice(["\u00a0", "\u3000", "\u00e9"])
    return cmd


MALFORMED = [
    "{", "not json", "[]", "null", "42", "\"str\"", "{}", "{\"method\":\"nosuch\"}", "{\"method\":\"run\"}",
    "{\"method\":\"run\",\"input\":5}", "{\"method\":\"load\",\"input\":\"1\"}",
    "{\"method\":\"eval_up_to\"}", "{\"method\":\"run\",\"input\":\"1\",\"id\":\"x\"}",
    "{\"method\":\"run\",\"input\":\"1\",\"id\":-1}", "{\"method\":\"Run\",\"input\":\"1\"}",
    "{\"method\":\"interrupt\",\"extra\":1}", "{\"method\":\"run\",\"input\":\"1\",\"offset\":\"a\"}",
]


def gen_history(rng, n_requests, swarm):
    """Returns a list of scenario steps (executor ops) plus the model's notes.
    swarm: dict of per-run rates."""
    r = rng
    names = {"funs": [], "vars": [], "tests": [], "locals": ["prew", "lw", "accw", "cw", "dw", "uw", "bw", "tw", "q"]}
    steps = []
    meta = []
    rid = 0
    tagn = 0
    site_list = sites.all_sites()
    for i in range(n_requests):
        rid += 1
        kind = r.weighted([
            (swarm["w_defs"], "defs"), (swarm["w_expr"], "expr"), (swarm["w_fail"], "fail"),
            (swarm["w_cmd"], "cmd"), (swarm["w_load"], "load"), (swarm["w_upto"], "upto"),
            (swarm["w_malformed"], "malformed"), (swarm["w_test"], "testdef"), (swarm["w_idle_int"], "idle_interrupt"),
            (swarm["w_burst"], "burst"), (swarm["w_ctx"], "ctxexpr"),
        ])
        faults = []
        if kind in ("expr", "fail", "cmd", "ctxexpr", "testdef") and r.chance(swarm["p_interrupt"]):
            faults = [{"at": r.randint(1, 60), "kind": "double" if r.chance(0.1) else "interrupt"}]
        if kind == "defs":
            tagn += 1
            tag = f"h{tagn}"
            defs, main = gen_prog(r.fork("defs", i), size=r.randint(4, 10), tag=tag)
            steps.append({"op": "send", "raw": run_req(defs, rid)})
            import re
            for m in re.finditer(r"^fun ([a-z0-9A-Z_]+)\(", defs, re.M):
                names["funs"].append(m.group(1))
            meta.append("defs")
        elif kind == "expr":
            tagn += 1
            tag = f"h{tagn}"
            defs, main = gen_prog(r.fork("expr", i), size=r.randint(3, 9), tag=tag)
            # definitions and expressions in ONE request (mixed), or expressions only
            if r.chance(0.5):
                src = defs + "\n" + " ".join(main)
            else:
                g_main = [m for m in main]
                src = " ".join(g_main) if not defs else defs + "\n" + " ".join(g_main)
            import re
            for m in re.finditer(r"\blet (v[a-z0-9]+) =", " ".join(main)):
                names["vars"].append(m.group(1))
            steps.append({"op": "send", "raw": run_req(src, rid), "faults": faults})
            meta.append("expr")
        elif kind == "fail":
            key, imports, expr = r.choice(site_list)
            placement = r.choice(sites.PLACEMENTS)
            tagn += 1
            pdefs, top = sites.place(expr, placement, tag=f"w")
            src = "\n".join(x for x in [imports, sites.LANG_DEFS, pdefs, top] if x)
            steps.append({"op": "send", "raw": run_req(src, rid), "faults": faults})
            meta.append(f"fail:{key}@{placement}")
            if r.chance(0.3):
                # a user hammering :resume after an error
                for _ in range(r.randint(1, 3)):
                    rid += 1
                    steps.append({"op": "send", "raw": run_req(":resume", rid), "faults": []})
                    meta.append("cmd::resume")
        elif kind == "ctxexpr":
            # an expression evaluated "in context" (whatever frame the session is stopped in)
            e = r.choice(["prew", "lw + 1", "accw", "1 + 1", "nosuchvar", "let zq = 5 zq", "throw(\"ctx\")",
                          "[1, 2].len()", "cw", "q", "println(\"ctx\")", "while True { }", "twov(1, 2)", "this"])
            if e == "while True { }" and not faults:
                faults = [{"at": r.randint(2, 30), "kind": "interrupt"}]
            steps.append({"op": "send", "raw": run_req(e, rid), "faults": faults})
            meta.append("ctxexpr")
            if e == "while True { }" and r.chance(0.5):
                # the user hits Ctrl-C again while the next command is still queued: the command that
                # continues the endless loop must report the interrupt at once
                steps.append({"op": "idle_interrupt"})
                meta.append("idle_interrupt")
                rid += 1
                steps.append({"op": "send", "raw": run_req(r.choice([":resume", ":resume", ":skip", ":replace 1"]), rid), "faults": []})
                meta.append("cmd::resume")
        elif kind == "cmd":
            cmd = command_pool(r, names)
            steps.append({"op": "send", "raw": run_req(cmd, rid), "faults": faults})
            meta.append("cmd:" + cmd.split(" ")[0])
        elif kind == "load":
            src = f"fun loaded{i}(x) {{ x + {i} }}\nfun other{i}() {{ 1 }}"
            off, end = (0, len(src)) if r.chance(0.6) else (src.index("fun other"), len(src))
            req = {"method": "load", "input": src, "path": r.choice(["world_ok.gdn", "x/y.gdn", "__user.gdn"]),
                   "offset": off, "end_offset": end, "id": rid}
            names["funs"].append(f"other{i}")
            steps.append({"op": "send", "raw": json.dumps(req)})
            meta.append("load")
        elif kind == "upto":
            src = r.choice([
                "fun upf(x) { let y = x + 1 y * 2 }\nupf(3)",
                "fun upf(x) { let y = x + 1 y * 2 }\nupf(3)",
                "fun upf(x, z) { let y = x + z y * 2 }\nupf(3, 4)",
                "fun upf() { let y = 1 y * 2 }\nupf()",
                "fun upf(x, z, w) { let y = x + z + w y }",
                "fun upf(x: Int, z: String) { let y = x y }\nupf(1, \"s\")",
                "method upm(this: String, n: Int) { let y = this.len() + n y }\n\"ab\".upm(2)",
                "method upm(this: String) { let y = this.len() y }\n\"ab\".upm()",
                "let s\u00e9 = \"caf\u00e9 \U0001f600\" s\u00e9.len()",
                "let uq = [1, 2, 3] for ue in uq { println(string_repr(ue)) }",
                "test upt { let a = 1 assert(a == 1) }",
                "1 +", "{ let z = nosuchvar z }", "if True { 1 } else { 2 }", "",
                "fun uploop() { while True { } }\nuploop()",
            ])
            family = {"upf": ["fun upf(x) { let y = x + 1 y * 2 }\nupf(3)", "fun upf(x, z) { let y = x + z y * 2 }\nupf(3, 4)",
                              "fun upf() { let y = 1 y * 2 }\nupf()", "fun upf(x, z, w) { let y = x + z + w y }",
                              "fun upf(x: Int, z: String) { let y = x y }\nupf(1, \"s\")"],
                      "upm": ["method upm(this: String, n: Int) { let y = this.len() + n y }\n\"ab\".upm(2)",
                              "method upm(this: String) { let y = this.len() y }\n\"ab\".upm()",
                              "method upm(this: String, n: Int, m: Int) { n + m }"]}
            paired = None
            for fam, members in family.items():
                if fam in src and r.chance(0.5):
                    # the IDE workflow: evaluate a definition and a call (which saves the call's arguments),
                    # edit the definition, then eval-up-to inside the edited text
                    paired = r.choice(members)
                    steps.append({"op": "send", "raw": run_req(paired, rid)})
                    meta.append("expr")
                    rid += 1
                    src = r.choice(members)
            # offsets are byte offsets on character boundaries, half of the time at the start of a word
            import re as _re
            if r.chance(0.5) and src:
                off = len(src[:r.choice([m.start() for m in _re.finditer(r"\w+|\S", src)] or [0])].encode())
            else:
                off = len(src[:r.randint(0, len(src))].encode())
            req = {"method": "eval_up_to", "src": src, "offset": off, "id": rid}
            if r.chance(0.5) and paired is None:
                req["path"] = r.choice(["world_ok.gdn", "up.gdn"])
            else:
                req["path"] = None
            st = {"op": "send", "raw": json.dumps(req)}
            if "while True" in src:
                st["faults"] = [{"at": r.randint(2, 40), "kind": "interrupt"}]
            steps.append(st)
            meta.append("upto")
        elif kind == "malformed":
            steps.append({"op": "send", "raw": r.choice(MALFORMED)})
            meta.append("malformed")
        elif kind == "testdef":
            tagn += 1
            tn = f"t{tagn}"
            body = r.choice([
                "assert(1 == 1)", "assert(1 == 2)", "throw(\"intest\")", "let a = [1].get(5) assert(a == None)",
                "nosuchfun()", "let k = 0 while k < 3 { k += 1 } assert(k == 3)", "typedv(\"a\", 1)", "",
            ])
            src = f"test {tn} {{ {body} }}"
            if r.chance(0.3):
                src += f" test {tn}b {{ assert(True) }}"
            if r.chance(0.3):
                src += " 1 + 1"
            names["tests"].append(tn)
            steps.append({"op": "send", "raw": run_req(src, rid), "faults": faults})
            meta.append("testdef")
        elif kind == "idle_interrupt":
            steps.append({"op": "idle_interrupt"})
            meta.append("idle_interrupt")
        elif kind == "burst":
            raws = []
            for j in range(r.randint(2, 4)):
                rid += 1
                c = r.choice(["1 + 1", ":locals", ":resume", ":abort", ":skip", "nosuchvar", ":stack"])
                raws.append(run_req(c, rid))
            if r.chance(0.3):
                raws.insert(r.randint(0, len(raws)), "{\"method\":\"interrupt\"}")
            steps.append({"op": "burst", "raws": raws})
            meta.append("burst")
    return steps, meta


def swarm_config(rng):
    r = rng
    def w(lo, hi):
        return r.randint(lo, hi)
    cfg = {
        "w_defs": w(1, 6), "w_expr": w(2, 8), "w_fail": w(2, 10), "w_cmd": w(6, 30), "w_load": w(0, 3),
        "w_upto": w(0, 3), "w_malformed": w(0, 3), "w_test": w(0, 4), "w_idle_int": w(0, 3), "w_burst": w(0, 3),
        "w_ctx": w(0, 6),
        "p_interrupt": r.choice([0.0, 0.0, 0.05, 0.15, 0.3]),
    }
    return cfg
