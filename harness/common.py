"""Shared infrastructure of the deterministic-simulation harness.

Everything random derives from one integer (VERIF_SEED) through SplitMix64;
Python's own `random`, `hash()` of strings and set iteration order are never
used for anything that influences a run.
"""
import json
import os
import select
import subprocess
import sys
import time

VERIF = "/verif"
# The registered checks always test /repo itself.  tools/check_tree.sh points these at a
# scratch copy of the repository (a seeded change under evaluation) and its own build.
REPO = os.environ.get("VERIF_REPO", "/repo")
BIN = os.environ.get("VERIF_BIN", os.path.join(VERIF, "target/release/garden-verif"))
# Background sweeps (vp run) set VERIF_SCRATCH so that they do not overwrite the
# evidence and replay files of the registered checks.
_SCRATCH = os.environ.get("VERIF_SCRATCH")
OUT = os.path.join(os.path.abspath(_SCRATCH), "out") if _SCRATCH else os.path.join(VERIF, "out")
EVIDENCE = os.path.join(os.path.abspath(_SCRATCH), "evidence") if _SCRATCH else os.path.join(VERIF, "evidence")
KNOWN_FINDINGS = os.path.join(VERIF, "known_findings.txt")

MASK = (1 << 64) - 1


def splitmix(x):
    x = (x + 0x9E3779B97F4A7C15) & MASK
    z = x
    z = ((z ^ (z >> 30)) * 0xBF58476D1CE4E5B9) & MASK
    z = ((z ^ (z >> 27)) * 0x94D049BB133111EB) & MASK
    return x, z ^ (z >> 31)


def mix(*parts):
    """Deterministic 64-bit mix of ints and strings."""
    h = 0x243F6A8885A308D3
    for p in parts:
        if isinstance(p, str):
            v = 0xCBF29CE484222325
            for b in p.encode():
                v = ((v ^ b) * 0x100000001B3) & MASK
        else:
            v = int(p) & MASK
        h ^= v
        _, h = splitmix(h)
    return h


class Rng:
    def __init__(self, seed):
        self.s = seed & MASK

    def u64(self):
        self.s, z = splitmix(self.s)
        return z

    def below(self, n):
        return self.u64() % n if n > 0 else 0

    def randint(self, a, b):
        return a + self.below(b - a + 1)

    def chance(self, p):
        return (self.u64() >> 11) / float(1 << 53) < p

    def choice(self, seq):
        return seq[self.below(len(seq))]

    def weighted(self, pairs):
        """pairs: [(weight, item)]"""
        total = sum(w for w, _ in pairs)
        r = self.below(total)
        for w, it in pairs:
            if r < w:
                return it
            r -= w
        return pairs[-1][1]

    def shuffle(self, lst):
        for i in range(len(lst) - 1, 0, -1):
            j = self.below(i + 1)
            lst[i], lst[j] = lst[j], lst[i]

    def sample(self, seq, k):
        lst = list(seq)
        self.shuffle(lst)
        return lst[:k]

    def fork(self, *label):
        return Rng(mix(self.u64(), *label))


def stable_hash(obj):
    """64-bit hash of a JSON-able object, independent of PYTHONHASHSEED."""
    return mix(json.dumps(obj, sort_keys=True, separators=(",", ":")))


# ----------------------------------------------------------------------
# build
# ----------------------------------------------------------------------

def build(verbose=True):
    """Rebuild the hooked binary from /repo's current working tree."""
    env = dict(os.environ)
    env["CARGO_NET_OFFLINE"] = "true"
    t0 = time.time()
    p = subprocess.run(
        ["cargo", "build", "--release", "--offline"],
        cwd=os.path.join(VERIF, "sim"),
        env=env,
        stdout=subprocess.PIPE,
        stderr=subprocess.STDOUT,
        text=True,
    )
    if p.returncode != 0:
        sys.stdout.write(p.stdout[-6000:])
        print("HARNESS-ERROR: build of the hooked binary failed")
        sys.exit(2)
    if verbose:
        print(f"[build] ok in {time.time() - t0:.1f}s")


# ----------------------------------------------------------------------
# executor: one long-lived simulator process speaking JSON lines
# ----------------------------------------------------------------------

class Executor:
    def __init__(self, engine, cwd, timeout=120.0, extra_args=()):
        self.engine = engine
        self.cwd = cwd
        self.timeout = timeout
        self.extra_args = list(extra_args)
        self.p = None
        self.restarts = 0
        os.makedirs(cwd, exist_ok=True)

    def _start(self):
        env = dict(os.environ)
        env.pop("VERIF_FAULTS", None)
        env["NO_COLOR"] = "1"
        if self.engine == "sessim":
            # scenarios travel on their own descriptor; the simulated session's programs own
            # the process's stdin, which is closed (read_line() sees EOF)
            r, w = os.pipe()
            self.p = subprocess.Popen(
                [BIN, "verif-sim", self.engine, "--fd", str(r)] + self.extra_args,
                cwd=self.cwd, stdin=subprocess.DEVNULL, stdout=subprocess.PIPE, stderr=subprocess.PIPE, env=env,
                pass_fds=(r,),
            )
            os.close(r)
            self.p.stdin = os.fdopen(w, "wb")
            return
        self.p = subprocess.Popen(
            [BIN, "verif-sim", self.engine] + self.extra_args,
            cwd=self.cwd,
            stdin=subprocess.PIPE,
            stdout=subprocess.PIPE,
            stderr=subprocess.PIPE,
            env=env,
        )

    def close(self):
        if self.p is not None:
            try:
                self.p.stdin.close()
            except Exception:
                pass
            try:
                self.p.kill()
            except Exception:
                pass
            self.p.wait()
            self.p = None

    def run(self, scenario):
        """Execute one scenario; returns its result dict.  If the simulator
        process dies or hangs, returns {"executor_died": ...} and restarts."""
        if self.p is None or self.p.poll() is not None:
            self._start()
        line = (json.dumps(scenario, separators=(",", ":")) + "\n").encode()
        try:
            self.p.stdin.write(line)
            self.p.stdin.flush()
        except BrokenPipeError:
            return self._died("broken pipe on write")
        # Whatever the code under test prints before the result line (e.g. with `:trace`
        # on, tens of megabytes) is discarded as it streams by; only the tail that may
        # hold the marker is kept, so reading stays linear.
        marker = b"\n@@VERIF-RESULT@@"
        buf = b""
        found = False
        deadline = time.time() + self.timeout
        fd = self.p.stdout.fileno()
        while True:
            remaining = deadline - time.time()
            if remaining <= 0:
                return self._died("timeout", hung=True)
            r, _, _ = select.select([fd], [], [], min(remaining, 1.0))
            if not r:
                if self.p.poll() is not None:
                    return self._died("exited")
                continue
            chunk = os.read(fd, 1 << 20)
            if not chunk:
                return self._died("eof")
            if found:
                buf += chunk
            else:
                buf = buf[-len(marker):] + chunk
                i = buf.rfind(marker)
                if i >= 0:
                    buf = buf[i:]
                    found = True
            if found and buf.endswith(b"\n") and b"\n" in buf[1:]:
                # a later marker inside the same burst of output wins
                j = buf.rfind(marker)
                if j > 0:
                    buf = buf[j:]
                if buf.endswith(b"\n") and b"\n" in buf[1:]:
                    break
        try:
            i = buf.rindex(b"\n@@VERIF-RESULT@@")
            return json.loads(buf[i + len(b"\n@@VERIF-RESULT@@"):].decode())
        except Exception as e:  # noqa
            return {"executor_died": True, "reason": f"bad json: {e}", "raw": buf[:400].decode(errors="replace")}

    def _died(self, reason, hung=False):
        rc = None
        err = ""
        try:
            if hung:
                self.p.kill()
            rc = self.p.wait(timeout=10)
            err = self.p.stderr.read().decode(errors="replace")[-2000:]
        except Exception:
            pass
        self.p = None
        self.restarts += 1
        return {"executor_died": True, "reason": reason, "returncode": rc, "stderr": err, "hung": hung}


def make_work_dir(prop_id, rank, root=None):
    """A scratch directory whose path has the same LENGTH whatever the worker
    rank and whoever creates it (pool worker, replay, minimiser): workloads that
    embed the path must not change size with it.  Returns (dir, root to remove or None)."""
    import tempfile
    own = None
    if root is None:
        root = tempfile.mkdtemp(prefix=f"verif-{prop_id}-")
        own = root
    d = os.path.join(root, f"w{rank:03d}")
    os.makedirs(d, exist_ok=True)
    return d, own


# ----------------------------------------------------------------------
# known findings
# ----------------------------------------------------------------------

def load_known_findings():
    """Lines of /verif/known_findings.txt:
         known: property=<id> key=<key prefix> <what fails>
         fixed: property=<id> <commit> <what failed>
    A `fixed` entry suppresses nothing.  The file is never written at run time."""
    import re
    out = []
    if os.path.exists(KNOWN_FINDINGS):
        for line in open(KNOWN_FINDINGS):
            line = line.strip()
            if not line or line.startswith("#"):
                continue
            m = re.match(r"^known:\s+property=(\S+)\s+key=(\S+)\s+(.*)$", line)
            if m:
                out.append({"status": "known", "property": m.group(1), "key_prefix": m.group(2), "what": m.group(3)})
                continue
            m = re.match(r"^fixed:\s+property=(\S+)\s+(\S+)\s+(.*)$", line)
            if m:
                out.append({"status": "fixed", "property": m.group(1), "commit": m.group(2), "what": m.group(3)})
    return out


# ----------------------------------------------------------------------
# JSON-session helpers shared by the sessim properties
# ----------------------------------------------------------------------

def run_req(inp, rid=None, path=None):
    d = {"method": "run", "input": inp}
    if rid is not None:
        d["id"] = rid
    if path is not None:
        d["path"] = path
    return json.dumps(d)


def final_response(round_):
    """The last worker response of a round that is not printed output."""
    for ev in reversed(round_["events"]):
        if ev["src"] != "worker":
            continue
        k = ev["line"].get("kind", {}) if isinstance(ev["line"], dict) else {}
        if "printed" in k or "printed_stderr" in k:
            continue
        return ev["line"]
    return None


def worker_responses(round_):
    out = []
    for ev in round_["events"]:
        if ev["src"] != "worker":
            continue
        k = ev["line"].get("kind", {}) if isinstance(ev["line"], dict) else {}
        if "printed" in k or "printed_stderr" in k:
            continue
        out.append(ev["line"])
    return out


def printed(round_):
    """Concatenated (stream, text) output of a round."""
    out = []
    for ev in round_["events"]:
        if not isinstance(ev["line"], dict):
            continue
        k = ev["line"].get("kind", {})
        if "printed" in k:
            out.append("o:" + k["printed"]["s"])
        elif "printed_stderr" in k:
            out.append("e:" + k["printed_stderr"]["s"])
    return "".join(out)


def outcome(line):
    """Normalised outcome of a final response: ('ok', text) | ('err', msg, start, end)
    | ('interrupted',) | ('cmd', msg) | ('malformed',) | ('none',)."""
    if line is None:
        return ("none",)
    k = line.get("kind", {})
    if "interrupted" in k:
        return ("interrupted",)
    if "evaluate" in k:
        v = k["evaluate"]["value"]
        if "Ok" in v:
            return ("ok", v["Ok"])
        e = v["Err"][0] if v["Err"] else {}
        if e.get("message") == "Interrupted":
            return ("interrupted",)
        pos = e.get("position") or {}
        return ("err", e.get("message"), pos.get("start_offset"), pos.get("end_offset"))
    if "run_command" in k:
        return ("cmd", k["run_command"]["message"])
    if "malformed_request" in k:
        return ("malformed", k["malformed_request"]["message"][:60])
    if "ready" in k:
        return ("ready",)
    return ("other", json.dumps(k)[:80])
