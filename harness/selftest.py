"""selftest-determinism / selftest-sensitivity.

determinism: every case of every engine is executed twice, in different
processes and with different worker counts (16 and 5), and the per-case
digests (observations, fault sites, interleaving signatures, verdicts) are
diffed.  One divergence is a harness error.

sensitivity: each deliberate property-breaking edit of /verif/selftest/mutants
is applied to /repo (which must be clean), the quick tier of the owning check
must report a violation, and /repo is restored."""
import importlib
import json
import os
import subprocess
import sys
import time

import common
import runner

DET_PROPS = {
    # name: (cases, fields compared)
    "c07": (242, "full"), "c08": (40, "full"), "c09": (1500, "full"), "c10": (500, "full"), "c11": (500, "full"),
    "c30": (500, "full"), "c31": (500, "full"),
    "c24": (150, "verdict"), "c26": (25, "verdict"), "c28": (150, "verdict"), "c25": (40, "verdict"),
}


def digest(res, mode):
    d = {"violations": sorted(v["key"] for v in res.get("violations", [])),
         "nontrivial": sorted(res.get("nontrivial", []))}
    if mode == "full":
        d["evaluations"] = res.get("evaluations")
        d["sim_steps"] = res.get("sim_steps")
        d["stats"] = {k: v for k, v in sorted(res.get("stats", {}).items())}
    return common.stable_hash(d)


def determinism(argv):
    only = [a.lower() for a in argv if not a.startswith("-")]
    common.build()
    bad = 0
    total = 0
    for name, (count, mode) in DET_PROPS.items():
        if only and name not in only:
            continue
        prop = importlib.import_module("props." + name).PROP
        t0 = time.time()
        a, ea, _, _ = runner.run_property(prop, "quick", 1, nproc=16, count=count, wall_cap=3000)
        b, eb, _, _ = runner.run_property(prop, "quick", 1, nproc=5, count=count, wall_cap=3000)
        if ea or eb:
            print(f"HARNESS-ERROR: {name}: harness errors during the determinism run: {(ea or eb)[0]['harness_error'][:400]}")
            bad += 1
            continue
        da = {r["index"]: digest(r, mode) for r in a}
        db = {r["index"]: digest(r, mode) for r in b}
        diff = [i for i in da if da[i] != db.get(i)]
        total += len(da)
        print(f"[determinism] {prop.id}: {len(da)} cases x 2 executions (16 vs 5 workers, {mode} digest): "
              f"{len(diff)} divergent  ({time.time() - t0:.0f}s)")
        if diff:
            bad += 1
            i = diff[0]
            ra = next(r for r in a if r["index"] == i)
            rb = next(r for r in b if r["index"] == i)
            print(f"  first divergence: case index {i} seed {ra['case_seed']}")
            for k in ("evaluations", "sim_steps"):
                if ra.get(k) != rb.get(k):
                    print(f"    {k}: {ra.get(k)} vs {rb.get(k)}")
            ka = set(ra.get("stats", {}).items())
            kb = set(rb.get("stats", {}).items())
            print(f"    stats only in A: {sorted(ka - kb)[:6]}  only in B: {sorted(kb - ka)[:6]}")
            print(f"    violations: {[v['key'] for v in ra.get('violations', [])]} vs {[v['key'] for v in rb.get('violations', [])]}")
    print(f"[determinism] {total} cases compared, {bad} engine(s) with divergences")
    return 2 if bad else 0


def sensitivity(argv, sub="mutants"):
    mdir = os.path.join(common.VERIF, "selftest", sub)
    only = [a for a in argv if not a.startswith("-")]
    if subprocess.run(["git", "-C", common.REPO, "diff", "--quiet"]).returncode != 0:
        print("HARNESS-ERROR: /repo has uncommitted changes; refusing to apply mutants")
        return 2
    rows = []
    missed = 0
    for fn in sorted(os.listdir(mdir)):
        if not fn.endswith(".diff"):
            continue
        pid = fn.split("_")[0].upper()
        if only and pid not in [o.upper() for o in only] and fn not in only:
            continue
        path = os.path.join(mdir, fn)
        if subprocess.run(["git", "-C", common.REPO, "apply", "--check", path]).returncode != 0:
            rows.append((fn, "DOES-NOT-APPLY"))
            missed += 1
            continue
        subprocess.run(["git", "-C", common.REPO, "apply", path], check=True)
        try:
            p = subprocess.run([os.path.join(common.VERIF, "check"), pid, "--tier", "quick", "--no-minimise"],
                               capture_output=True, text=True, cwd=common.VERIF)
            caught = p.returncode == 1 and f"VIOLATION property={pid}" in p.stdout
            keys = sorted(set(l.split("key=")[1].split()[0] for l in p.stdout.splitlines() if "key=" in l))
            rows.append((fn, "caught " + ",".join(keys)[:160] if caught else f"MISSED (exit {p.returncode})"))
            if not caught:
                missed += 1
        finally:
            subprocess.run(["git", "-C", common.REPO, "checkout", "--", "."], check=True)
    for fn, st in rows:
        print(f"[sensitivity] {fn}: {st}")
    common.build(verbose=False)
    print(f"[sensitivity] {len(rows)} mutants, {missed} missed")
    return 1 if missed else 0


def main(cmd, argv):
    if cmd == "selftest-determinism":
        return determinism(argv)
    if cmd == "selftest-sensitivity":
        return sensitivity(argv)
    if cmd == "selftest-regressions":
        # each repaired defect put back (the reverse of its `fix:` commit): the owning check must report it again
        return sensitivity(argv, "regressions")
    print("unknown selftest")
    return 2
