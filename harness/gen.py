"""Seeded workload generators (Garden programs)."""
from common import Rng


class Scope:
    def __init__(self, parent=None):
        self.vars = {"I": [], "B": [], "S": [], "L": []}
        self.parent = parent
        self.mutable = {}

    def all(self, ty):
        out = []
        s = self
        while s is not None:
            out.extend(s.vars[ty])
            s = s.parent
        return out

    def add(self, ty, name):
        self.vars[ty].append(name)

    def child(self):
        return Scope(self)


class ProgGen:
    """Terminating programs in a core fragment.  Every `println` site carries a
    unique token so that each output line is attributable to one step."""

    def __init__(self, rng: Rng, size=12, tag="p", allow_throw=True, wide=None, shell=False):
        self.r = rng
        # opt-in: calls of a harmless external command (`true`), a step that blocks in a system call
        self.shell = shell
        # "wide" programs also use the prelude's Garden-implemented methods (closures called from
        # library loops), dicts, Result, tuple destructuring in `for`, assert; decided per program
        self.wide = rng.fork("wide").chance(0.5) if wide is None else wide
        self.size = size
        self.tag = tag
        self.n_var = 0
        self.n_print = 0
        self.funs = []  # (name, n_params)
        self.structs = []  # (name, fields)
        self.enums = []  # (name, [(variant, has_payload)])
        self.methods = []  # (struct, name)
        self.in_fun = False
        self.loop_depth = 0
        self.allow_throw = allow_throw
        self.budget = 0

    # -- names -----------------------------------------------------
    def fresh(self, prefix="v"):
        self.n_var += 1
        return f"{prefix}{self.tag}{self.n_var}"

    def token(self):
        self.n_print += 1
        return f"{self.tag}{self.n_print}"

    # -- expressions ----------------------------------------------
    def int_expr(self, sc, depth=0):
        r = self.r
        vs = sc.all("I")
        if depth >= 3 or r.chance(0.3):
            if vs and r.chance(0.7):
                return r.choice(vs)
            return str(r.randint(0, 12))
        k = r.below(12)
        if k == 0:
            return f"({self.int_expr(sc, depth + 1)} + {self.int_expr(sc, depth + 1)})"
        if k == 1:
            return f"({self.int_expr(sc, depth + 1)} - {self.int_expr(sc, depth + 1)})"
        if k == 2:
            return f"({self.int_expr(sc, depth + 1)} * {r.randint(0, 4)})"
        if k == 3:
            return f"({self.int_expr(sc, depth + 1)} % {r.randint(1, 9)})"
        if k == 4 and self.funs:
            name, n = r.choice(self.funs)
            args = ", ".join(self.int_expr(sc, depth + 1) for _ in range(n))
            return f"{name}({args})"
        if k == 5 and sc.all("L"):
            return f"{r.choice(sc.all('L'))}.len()"
        if k == 6 and sc.all("L"):
            x = self.fresh("m")
            return (f"match {r.choice(sc.all('L'))}.get({self.int_expr(sc, depth + 1)}) "
                    f"{{ Some({x}) => {x} None => {r.randint(0, 9)} }}")
        if k == 7:
            return (f"if {self.bool_expr(sc, depth + 1)} {{ {self.int_expr(sc, depth + 1)} }} "
                    f"else {{ {self.int_expr(sc, depth + 1)} }}")
        if k == 8 and self.structs:
            sname, fields = r.choice(self.structs)
            lit = ", ".join(f"{f}: {self.int_expr(sc, depth + 1)}" for f in fields)
            ms = [m for (s, m) in self.methods if s == sname]
            if ms and r.chance(0.5):
                return f"{sname}{{ {lit} }}.{r.choice(ms)}()"
            return f"{sname}{{ {lit} }}.{r.choice(fields)}"
        if k == 9 and self.enums:
            ename, variants = r.choice(self.enums)
            v, payload = r.choice(variants)
            scrut = f"{v}({self.int_expr(sc, depth + 1)})" if payload else v
            ems = [m for (t, m) in self.methods if t == ename]
            if ems and r.chance(0.5):
                return f"{scrut}.{r.choice(ems)}()"
            arms = []
            for (vn, pl) in variants:
                if pl:
                    x = self.fresh("m")
                    arms.append(f"{vn}({x}) => ({x} + {r.randint(0, 5)})")
                else:
                    arms.append(f"{vn} => {r.randint(0, 9)}")
            return f"match {scrut} {{ {' '.join(arms)} }}"
        if k == 10:
            y = self.fresh("c")
            return f"(fun({y}) {{ {y} + {self.int_expr(sc, depth + 1)} }})({self.int_expr(sc, depth + 1)})"
        if k == 11 and sc.all("S"):
            return f"{r.choice(sc.all('S'))}.len()"
        if self.wide:
            return self.wide_int_expr(sc, depth)
        return str(r.randint(0, 12))

    def wide_int_expr(self, sc, depth):
        r = self.r
        k = r.below(12)
        lst = self.list_expr(sc, depth + 1)
        y = self.fresh("c")
        if k == 0:
            return f"{lst}.map(fun({y}) {{ {y} * {r.randint(0, 3)} + {self.int_expr(sc, 3)} }}).len()"
        if k == 1:
            return f"{lst}.filter(fun({y}) {{ {y} < {self.int_expr(sc, 3)} }}).len()"
        if k == 2:
            return f"sort_nums({lst}).first().or_value({r.randint(0, 9)})"
        if k == 3:
            return f"max({self.int_expr(sc, depth + 1)}, min({self.int_expr(sc, depth + 1)}, {r.randint(0, 9)}))"
        if k == 4:
            return f"{lst}.concat(range(0, {r.randint(0, 4)})).index_of({r.randint(0, 5)}).or_value(-1)"
        if k == 5:
            key = r.choice(['"a"', '"b"', '"c"', '"z"'])
            return (f"Dict[\"a\" => {self.int_expr(sc, depth + 1)}, \"b\" => {r.randint(0, 9)}]"
                    f".set(\"c\", {r.randint(0, 9)}).get({key}).or_value(7)")
        if k == 6:
            x = self.fresh("m")
            e = self.fresh("m")
            scrut = r.choice([f"Ok({self.int_expr(sc, depth + 1)})", "Err(\"bad\")"])
            return f"match {scrut} {{ Ok({x}) => {x} + 1 Err({e}) => {e}.len() }}"
        if k == 7:
            return f"{lst}.slice(0, {r.randint(0, 3)}).last().or_value({r.randint(0, 9)})"
        if k == 8:
            word = "-".join("ab"[:r.randint(1, 2)] for _ in range(r.randint(1, 4)))
            return f"\"{word}\".split(\"-\").len()"
        if k == 9:
            return f"Some({self.int_expr(sc, depth + 1)}).or_throw()"
        if k == 10:
            return f"{self.str_expr(sc, 1)}.replace(\"s\", \"tt\").trim().len()"
        return f"{lst}.enumerate().len()"

    def bool_expr(self, sc, depth=0):
        r = self.r
        if depth >= 3 or r.chance(0.2):
            vs = sc.all("B")
            if vs and r.chance(0.5):
                return r.choice(vs)
            return r.choice(["True", "False"])
        k = r.below(8 if self.wide else 6)
        a, b = self.int_expr(sc, depth + 1), self.int_expr(sc, depth + 1)
        if k == 6:
            return f"{self.list_expr(sc, depth + 1)}.contains({a})"
        if k == 7:
            return f"{self.str_expr(sc, 1)}.starts_with(\"s{r.randint(0, 9)}\")"
        if k == 0:
            return f"({a} < {b})"
        if k == 1:
            return f"({a} == {b})"
        if k == 2:
            return f"({a} >= {b})"
        if k == 3:
            return f"({self.bool_expr(sc, depth + 1)} && {self.bool_expr(sc, depth + 1)})"
        if k == 4:
            return f"({self.bool_expr(sc, depth + 1)} || {self.bool_expr(sc, depth + 1)})"
        return f"not({self.bool_expr(sc, depth + 1)})"

    def str_expr(self, sc, depth=0):
        r = self.r
        if depth >= 2 or r.chance(0.3):
            vs = sc.all("S")
            if vs and r.chance(0.5):
                return r.choice(vs)
            if self.wide and r.chance(0.25):
                return r.choice(['"caf\u00e9"', '"\u2192 s1"', '"s\U0001f600"', '"\u4e2d\u6587s"'])
            return f"\"s{r.randint(0, 99)}\""
        k = r.below(5 if self.wide else 3)
        if k == 3:
            return f"\", \".join({self.list_expr(sc, 2)}.map(fun(j{self.fresh('c')}) {{ \"n\" }}))"
        if k == 4:
            return f"{self.str_expr(sc, depth + 1)}.substring(0, {r.randint(0, 3)})"
        if k == 0:
            return f"({self.str_expr(sc, depth + 1)} ^ {self.str_expr(sc, depth + 1)})"
        if k == 1:
            return f"string_repr({self.int_expr(sc, depth + 1)})"
        return f"\"s{r.randint(0, 99)}\""

    def list_expr(self, sc, depth=0):
        r = self.r
        vs = sc.all("L")
        if vs and r.chance(0.4):
            if r.chance(0.4):
                return f"{r.choice(vs)}.append({self.int_expr(sc, depth + 1)})"
            return r.choice(vs)
        n = r.randint(0, 4)
        return "[" + ", ".join(self.int_expr(sc, 2) for _ in range(n)) + "]"

    def expr(self, ty, sc):
        return {"I": self.int_expr, "B": self.bool_expr, "S": self.str_expr, "L": self.list_expr}[ty](sc)

    # -- statements -----------------------------------------------
    def assignable(self, sc):
        # loop counters (prefix i) and for-variables (prefix x) are read-only
        return [v for v in sc.all("I") if not (v.startswith("i" + self.tag) or v.startswith("x" + self.tag))]

    def print_stmt(self, sc):
        r = self.r
        t = self.token()
        k = r.below(4)
        fn = "println" if r.chance(0.85) else "eprintln"
        if k == 0:
            return f"{fn}(\"{t}\")"
        if k == 1 and sc.all("S"):
            return f"{fn}(\"{t}:\" ^ {r.choice(sc.all('S'))})"
        if k == 2 and sc.all("L"):
            return f"{fn}(\"{t}:\" ^ string_repr({r.choice(sc.all('L'))}))"
        return f"{fn}(\"{t}:\" ^ string_repr({self.int_expr(sc, 1)}))"

    def block(self, sc, n, out_indent=""):
        inner = sc.child()
        stmts = []
        for _ in range(n):
            stmts.append(self.stmt(inner))
        return "{ " + " ".join(stmts) + " }"

    def stmt(self, sc):
        r = self.r
        self.budget -= 1
        small = self.budget <= 0 or self.loop_depth >= 2
        k = r.below(16)
        if k <= 1 or (small and k >= 6):
            return self.print_stmt(sc)
        if k == 2:
            ty = r.weighted([(5, "I"), (2, "B"), (2, "S"), (2, "L")])
            name = self.fresh()
            e = self.expr(ty, sc)
            if ty == "I":
                e = f"({e}) % 1000"
            sc.add(ty, name)
            return f"let {name} = {e}"
        if k == 3 and self.assignable(sc):
            return f"{r.choice(self.assignable(sc))} = ({self.int_expr(sc)}) % 1000"
        if k == 4 and self.assignable(sc):
            v = r.choice(self.assignable(sc))
            return f"{v} += {self.int_expr(sc, 2)} {v} = {v} % 1000" if r.chance(0.7) else f"{v} -= {self.int_expr(sc, 2)}"
        if k == 5 and sc.all("L"):
            v = r.choice(sc.all("L"))
            return f"{v} = {v}.append({self.int_expr(sc, 2)})"
        if k == 6:
            b1 = self.block(sc, r.randint(1, 3))
            if r.chance(0.6):
                return f"if {self.bool_expr(sc)} {b1} else {self.block(sc, r.randint(1, 2))}"
            return f"if {self.bool_expr(sc)} {b1}"
        if k == 7:
            c = self.fresh("i")
            n = r.randint(1, 4)
            self.loop_depth += 1
            inner = sc.child()
            inner.add("I", c)
            body = [f"{c} += 1"]
            for _ in range(r.randint(1, 3)):
                if r.chance(0.35):
                    kw = r.choice(["break", "continue"])
                    pre = self.print_stmt(inner) + " " if r.chance(0.5) else ""
                    cond = r.choice([f"{c} == {r.randint(1, max(1, n))}", self.bool_expr(inner, 1)])
                    body.append(f"if {cond} {{ {pre}{kw} }}")
                else:
                    body.append(self.stmt(inner))
            self.loop_depth -= 1
            return f"let {c} = 0 while {c} < {n} {{ {' '.join(body)} }}"
        if k == 8:
            x = self.fresh("x")
            self.loop_depth += 1
            inner = sc.child()
            inner.add("I", x)
            body = []
            for _ in range(r.randint(1, 3)):
                if r.chance(0.35):
                    kw = r.choice(["break", "continue"])
                    cond = r.choice([f"{x} > {r.randint(0, 9)}", self.bool_expr(inner, 1)])
                    body.append(f"if {cond} {{ {kw} }}")
                else:
                    body.append(self.stmt(inner))
            self.loop_depth -= 1
            return f"for {x} in {self.list_expr(sc)} {{ {' '.join(body)} }}"
        if k == 9:
            x = self.fresh("m")
            inner = sc.child()
            inner.add("I", x)
            lst = self.list_expr(sc)
            a1 = "{ " + " ".join(self.stmt(inner) for _ in range(r.randint(1, 2))) + " }"
            a2 = self.block(sc, r.randint(1, 2))
            return f"match {lst}.get({self.int_expr(sc, 2)}) {{ Some({x}) => {a1} None => {a2} }}"
        if k == 10 and self.funs:
            name, n = r.choice(self.funs)
            args = ", ".join(self.int_expr(sc, 2) for _ in range(n))
            return f"{name}({args})"
        if k == 11 and self.in_fun and r.chance(0.5):
            return f"if {self.bool_expr(sc, 1)} {{ return ({self.int_expr(sc, 1)}) % 1000 }}"
        if k == 12:
            a, b = self.fresh("a"), self.fresh("b")
            e1, e2 = self.int_expr(sc, 2), self.int_expr(sc, 2)
            sc.add("I", a)
            sc.add("I", b)
            return f"let ({a}, {b}) = ({e1}, {e2})"
        if k == 13 and self.allow_throw:
            e = self.fresh("e")
            t = self.token()
            body = self.block(sc, r.randint(1, 2))
            thr = f"if {self.bool_expr(sc, 1)} {{ throw(\"{t}\") }} " if r.chance(0.08) else ""
            return (f"try {{ {self.print_stmt(sc)} {thr}"
                    f"{self.print_stmt(sc)} }} catch ({e}) {body}")
        if k == 14:
            cl = self.fresh("k")
            y = self.fresh("y")
            v = self.fresh()
            e1, e2 = self.int_expr(sc, 2), self.int_expr(sc, 2)
            sc.add("I", v)
            return (f"let {cl} = fun({y}) {{ ({y} + {e1}) % 1000 }} "
                    f"let {v} = {cl}({e2})")
        if k == 15 and self.shell and r.chance(0.5):
            t = self.token()
            return (f"match shell::run(\"true\", []) {{ Ok(_) => println(\"{t}\") Err(_) => println(\"{t}\") }}")
        if k == 15 and self.wide:
            j = r.below(4)
            if j == 0:
                i, x = self.fresh("x"), self.fresh("x")
                self.loop_depth += 1
                inner = sc.child()
                inner.add("I", i)
                inner.add("I", x)
                body = " ".join(self.stmt(inner) for _ in range(r.randint(1, 2)))
                self.loop_depth -= 1
                return f"for ({i}, {x}) in {self.list_expr(sc)}.enumerate() {{ {body} }}"
            if j == 1:
                a = self.int_expr(sc, 2)
                return f"assert(({a}) == ({a}))"
            if j == 2:
                kk, vv = self.fresh("x"), self.fresh("x")
                inner = sc.child()
                inner.add("I", vv)
                self.loop_depth += 1
                body = self.stmt(inner)
                self.loop_depth -= 1
                return (f"for ({kk}, {vv}) in Dict[\"k1\" => {self.int_expr(sc, 2)}, \"k2\" => {self.int_expr(sc, 2)}].items() "
                        f"{{ {body} }}")
            t = self.token()
            return f"{self.list_expr(sc)}.map(fun(w{self.fresh('c')}) {{ println(\"{t}\") 0 }})"
        return self.print_stmt(sc)

    # -- definitions ----------------------------------------------
    def gen_defs(self):
        r = self.r
        defs = []
        if self.shell:
            defs.append('import "__shell.gdn" as shell')
        if r.chance(0.6):
            sname = f"S{self.tag}"
            fields = ["x", "y"][: r.randint(1, 2)]
            defs.append(f"struct {sname} {{ " + ", ".join(f"{f}: Int" for f in fields) + " }")
            self.structs.append((sname, fields))
            if r.chance(0.7):
                m = f"sum{self.tag}"
                body = " + ".join(f"this.{f}" for f in fields)
                defs.append(f"method {m}(this: {sname}): Int {{ ({body}) % 1000 }}")
                self.methods.append((sname, m))
        if r.chance(0.5):
            ename = f"E{self.tag}"
            variants = [(f"A{self.tag}", False), (f"B{self.tag}", True)]
            if r.chance(0.4):
                variants.append((f"C{self.tag}", True))
            defs.append(f"enum {ename} {{ " + ", ".join(f"{v}(Int)" if p else v for v, p in variants) + " }")
            self.enums.append((ename, variants))
            if r.chance(0.5):
                m = f"wt{self.tag}"
                arms = " ".join((f"{v}(w) => (w + {r.randint(0, 5)}) % 1000" if pl else f"{v} => {r.randint(0, 9)}")
                                for v, pl in variants)
                defs.append(f"method {m}(this: {ename}): Int {{ match this {{ {arms} }} }}")
                self.methods.append((ename, m))
        nf = r.randint(1, 3)
        for i in range(nf):
            name = f"f{self.tag}{i}"
            n = r.randint(0, 2)
            params = [self.fresh("p") for _ in range(n)]
            sc = Scope()
            for p in params:
                sc.add("I", p)
            self.in_fun = True
            self.budget = self.size // 2
            body = [self.stmt(sc) for _ in range(r.randint(1, 4))]
            self.in_fun = False
            sig = ", ".join(f"{p}: Int" for p in params)
            ann = ": Int" if r.chance(0.5) else ""
            defs.append(f"fun {name}({sig}){ann} {{ {' '.join(body)} ({self.int_expr(sc, 1)}) % 1000 }}")
            self.funs.append((name, n))
        if r.chance(0.5):
            name = f"rec{self.tag}"
            t = self.token()
            defs.append(
                f"fun {name}(n: Int, acc: Int): Int {{ if n <= 0 {{ return acc }} "
                f"println(\"{t}:\" ^ string_repr(n)) {name}(n - 1, (acc + n * {r.randint(1, 3)}) % 1000) }}")
            # called with a small literal first argument only
            self.rec = name
        else:
            self.rec = None
        return defs

    def gen_main(self):
        r = self.r
        sc = Scope()
        self.budget = self.size
        stmts = []
        for _ in range(r.randint(2, max(3, self.size // 3))):
            stmts.append(self.stmt(sc))
            if self.rec and r.chance(0.2):
                v = self.fresh()
                stmts.append(f"let {v} = {self.rec}({r.randint(0, 5)}, {self.int_expr(sc, 2)})")
                sc.add("I", v)
        final_ty = r.weighted([(4, "I"), (1, "S"), (1, "L"), (1, "B")])
        stmts.append(self.expr(final_ty, sc))
        self.main_scope = sc
        return stmts


def gen_prog(rng, size=12, tag="p", wide=None, shell=False):
    """Returns (definitions source, toplevel statements list)."""
    g = ProgGen(rng, size=size, tag=tag, wide=wide, shell=shell)
    defs = g.gen_defs()
    main = g.gen_main()
    return "\n".join(defs), main
