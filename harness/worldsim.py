"""worldsim: one run of the real binary inside a seeded simulated world.

The unit of simulation is a process; the world (file system, PATH, stdin,
resources, framed streams) is built from the run's seed, observed before and
after, and removed afterwards."""
import fcntl
import hashlib
import os
import re
import resource
import shutil
import signal
import struct
import subprocess
import termios
import time

import common


def snapshot(root):
    """path -> (kind, size, sha1, mode) for everything under root."""
    out = {}
    for d, dirs, files in os.walk(root):
        dirs.sort()
        for name in sorted(dirs):
            p = os.path.join(d, name)
            st = os.lstat(p)
            out[os.path.relpath(p, root)] = ("dir", 0, "", st.st_mode & 0o7777)
        for name in sorted(files):
            p = os.path.join(d, name)
            st = os.lstat(p)
            try:
                h = hashlib.sha1(open(p, "rb").read()).hexdigest()
            except Exception:
                h = "?"
            out[os.path.relpath(p, root)] = ("file", st.st_size, h, st.st_mode & 0o7777)
    return out


def diff_snapshots(a, b):
    changes = []
    for k in sorted(set(a) | set(b)):
        if k not in a:
            changes.append(f"created {k}")
        elif k not in b:
            changes.append(f"deleted {k}")
        elif a[k] != b[k]:
            changes.append(f"modified {k}")
    return changes


class World:
    """A scratch directory with sentinel files, a secret, a read-only
    directory and a canary executable first on PATH."""

    def __init__(self, root, token):
        self.root = root
        self.token = token
        self.dir = os.path.join(root, "world")
        self.marker = os.path.join(root, "canary_marker")
        self.tmp = os.path.join(root, "tmp")
        os.makedirs(self.dir)
        os.makedirs(self.tmp)
        os.makedirs(os.path.join(self.dir, "sub"))
        os.makedirs(os.path.join(self.dir, "emptydir"))
        os.makedirs(os.path.join(self.dir, "bin"))
        self.secret_text = f"SECRET-{token}"
        self.stdin_text = f"STDIN-{token}"
        self.write("sentinel.txt", f"SENTINEL-{token}\n")
        self.write("secret.txt", self.secret_text + "\n")
        self.write("sub/inner.txt", "inner\n")
        os.symlink("secret.txt", os.path.join(self.dir, "link_to_secret"))
        os.symlink("sub", os.path.join(self.dir, "link_to_sub"))
        canary = os.path.join(self.dir, "bin", "canary")
        with open(canary, "w") as f:
            f.write(f"#!/bin/sh\necho ran \"$@\" >> {self.marker}\necho CANARY-OUT\n")
        os.chmod(canary, 0o755)
        self.canary = canary

    def write(self, rel, text):
        p = os.path.join(self.dir, rel)
        with open(p, "w") as f:
            f.write(text)
        return p

    def env(self, extra=None):
        e = {
            "PATH": os.path.join(self.dir, "bin") + ":/usr/bin:/bin",
            "HOME": self.dir,
            "TMPDIR": self.tmp,
            "NO_COLOR": "1",
            "LANG": "C.UTF-8",
        }
        if extra:
            e.update(extra)
        return e

    def cleanup(self):
        for d, dirs, files in os.walk(self.root):
            for name in dirs:
                try:
                    os.chmod(os.path.join(d, name), 0o755)
                except Exception:
                    pass
        shutil.rmtree(self.root, ignore_errors=True)


def _limits(cpu_s, as_bytes):
    def f():
        if cpu_s:
            resource.setrlimit(resource.RLIMIT_CPU, (cpu_s, cpu_s + 1))
        if as_bytes:
            resource.setrlimit(resource.RLIMIT_AS, (as_bytes, as_bytes))
        resource.setrlimit(resource.RLIMIT_CORE, (0, 0))
    return f


def proc_cpu_ticks(pid):
    try:
        s = open(f"/proc/{pid}/stat").read()
        rest = s[s.rindex(")") + 2:].split()
        return rest[0], int(rest[11]) + int(rest[12])
    except Exception:
        return None, None


def blocked_on_fd0(pid):
    """True if some thread of pid is sleeping in a read-like syscall on fd 0."""
    try:
        for tid in os.listdir(f"/proc/{pid}/task"):
            s = open(f"/proc/{pid}/task/{tid}/syscall").read().split()
            if s and s[0] in ("0", "17", "19", "295") and len(s) > 1 and int(s[1], 16) == 0:
                return True
    except Exception:
        pass
    return False


def run_child(argv, cwd, env, stdin_mode="closed", stdin_text="", cpu_s=20, as_bytes=4 << 30,
              wall_s=30.0, strace_to=None, input_bytes=None):
    """Run the real binary.  stdin_mode: closed | loaded | stalled | bytes.
    Returns dict(rc, signal, stdout, stderr, cpu_s, stdin_left, stdin_total, blocked_on_stdin, killed)."""
    rfd = wfd = None
    total = 0
    if stdin_mode == "closed":
        stdin = subprocess.DEVNULL
    else:
        rfd, wfd = os.pipe()
        if stdin_mode == "loaded":
            data = (stdin_text + "\n").encode()
            os.write(wfd, data)
            total = len(data)
        elif stdin_mode == "bytes":
            os.write(wfd, input_bytes)
            total = len(input_bytes)
            os.close(wfd)
            wfd = None
        stdin = rfd
    if strace_to:
        argv = ["strace", "-f", "-qq", "-e", "trace=%file,%process,read,readv,pread64", "-o", strace_to] + argv
    t0 = time.time()
    p = subprocess.Popen(argv, cwd=cwd, env=env, stdin=stdin, stdout=subprocess.PIPE, stderr=subprocess.PIPE,
                         preexec_fn=_limits(cpu_s, as_bytes), start_new_session=True)

    def kill_group():
        # the child may be strace + the traced binary: kill the whole group
        try:
            os.killpg(p.pid, signal.SIGKILL)
        except Exception:
            pass
    blocked = False
    killed = False
    out = err = b""
    # Observe the process state rather than guess from wall-clock time: a child
    # that sleeps in read(0) with its CPU clock standing still is blocked on stdin.
    last_ticks = None
    still = 0
    import selectors
    sel = selectors.DefaultSelector()
    sel.register(p.stdout, selectors.EVENT_READ)
    sel.register(p.stderr, selectors.EVENT_READ)
    open_streams = 2
    while open_streams:
        for key, _ in sel.select(timeout=0.1):
            data = os.read(key.fileobj.fileno(), 1 << 16)
            if not data:
                sel.unregister(key.fileobj)
                open_streams -= 1
            elif key.fileobj is p.stdout:
                out += data
            else:
                err += data
        if p.poll() is None and stdin_mode in ("stalled", "loaded"):
            target = p.pid
            if strace_to:
                try:
                    kids = open(f"/proc/{p.pid}/task/{p.pid}/children").read().split()
                    target = int(kids[0]) if kids else p.pid
                except Exception:
                    target = p.pid
            state, ticks = proc_cpu_ticks(target)
            if ticks is not None and ticks == last_ticks and state == "S":
                still += 1
            else:
                still = 0
            last_ticks = ticks
            if still >= 3 and blocked_on_fd0(target):
                blocked = True
                kill_group()
                killed = True
        if time.time() - t0 > wall_s:
            kill_group()
            killed = True
            break
    rc = p.wait()
    kill_group()
    ru = resource.getrusage(resource.RUSAGE_CHILDREN)
    left = None
    if rfd is not None:
        try:
            buf = fcntl.ioctl(rfd, termios.FIONREAD, struct.pack("i", 0))
            left = struct.unpack("i", buf)[0]
        except Exception:
            left = None
        os.close(rfd)
        if wfd is not None:
            os.close(wfd)
    return {
        "rc": rc if rc >= 0 else None,
        "signal": -rc if rc < 0 else None,
        "stdout": out.decode(errors="replace"),
        "stderr": err.decode(errors="replace"),
        "stdin_left": left,
        "stdin_total": total,
        "blocked_on_stdin": blocked,
        "killed": killed,
        "wall": time.time() - t0,
    }


_ST_LINE = re.compile(r"^(\d+)\s+(\w+)\((.*)$")


def strace_effects(path, world_dir, allowed_paths=()):
    """Effects visible at the syscall boundary: opens/stats/unlinks of world
    paths, process creation, reads of fd 0."""
    effects = []
    n_exec = 0
    try:
        lines = open(path, errors="replace").read().splitlines()
    except Exception:
        return ["strace log missing"]
    for ln in lines:
        m = _ST_LINE.match(ln)
        if not m:
            continue
        call, rest = m.group(2), m.group(3)
        if call == "execve":
            n_exec += 1
            if n_exec > 1:
                effects.append("execve " + rest[:80])
        elif call in ("fork", "vfork"):
            effects.append(call)
        elif call in ("clone", "clone3"):
            if "CLONE_THREAD" not in rest:
                effects.append("process created: " + rest[:60])
        elif call in ("read", "readv", "pread64"):
            if rest.startswith("0,"):
                effects.append("read(0, ...)")
        else:
            if world_dir in rest:
                pm = re.search(r"\"(" + re.escape(world_dir) + r"[^\"]*)\"", rest)
                pth = pm.group(1) if pm else ""
                if pth in allowed_paths or pth == world_dir:
                    continue
                if call == "getcwd":
                    continue
                effects.append(f"{call} {pth}")
            elif call in ("openat", "open", "unlink", "unlinkat", "mkdir", "mkdirat", "rename", "renameat", "renameat2",
                          "newfstatat", "statx", "stat", "lstat", "access", "faccessat", "faccessat2", "rmdir", "chdir",
                          "readlink", "readlinkat", "creat", "truncate", "symlink", "link"):
                # relative paths resolve inside the world (cwd)
                pm = re.search(r"\"([^\"/][^\"]*)\"", rest)
                if pm and "AT_FDCWD" in rest or (pm and call in ("open", "unlink", "mkdir", "stat", "lstat", "access", "rmdir", "chdir", "creat")):
                    pth = os.path.join(world_dir, pm.group(1))
                    if pth in allowed_paths:
                        continue
                    effects.append(f"{call} {pm.group(1)} (relative, inside the world)")
    return effects
