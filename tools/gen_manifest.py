#!/usr/bin/env python3
"""Regenerates /verif/MANIFEST.json from the table below (single source of truth)."""
import json
import os
import subprocess

VERIF = os.path.dirname(os.path.dirname(os.path.abspath(__file__)))

# property id -> description of the implemented check
CHECKS = {
    "C08": dict(
        engine="sessim",
        category="fault_enumeration",
        technique="deterministic simulation: step-indexed interrupt injection (every evaluation step of each generated "
                  "program is a crash point, with the interrupt arriving before the step and while the step executes), "
                  "resume, comparison with the uninterrupted run",
        text="For every generated program the complete set of crash points (its evaluation steps) is enumerated: a fresh "
             "simulated JSON session is interrupted by the real reader code exactly before step k - and, separately, while step "
             "k executes (hook H2b, after the evaluator's own check) - and resumed; printed output, final outcome and the "
             "executed-step trace (recorded where a step really starts to run) must equal the uninterrupted run. Exhaustive over k per "
             "program (sampled only for programs longer than the tier's limit, reported in the evidence), sampled over "
             "programs and over multi-interrupt plans.",
        note="Trusts the equivalence argument that the reader thread can only act between two evaluation steps (the two "
             "threads share only an atomic flag, a channel and line-atomic stdout); thread spawn and the recv loop are "
             "sequenced by the simulator; generated programs cover a fragment of the language (core control flow, calls, closures, "
             "structs/enums/methods, prelude methods written in Garden, dicts, Result, optional external-command steps); "
             "programs with test definitions are not generated (a stop inside a test ends the request by design).",
        design_ref="DESIGN.md section 3, C08",
    ),
    "C07": dict(
        engine="sessim",
        category="exploration",
        technique="deterministic simulation of session histories: fault = the failed evaluation step, retry = :resume, "
                  "with interrupts injected inside and between the retries",
        text="Every runtime-error site the generator can enumerate (all built-in functions and methods declared in "
             "src/__*.gdn x wrong type per argument / arity-1 / arity+1 / wrong receiver, every binary operator x wrong "
             "side, 44 language-level errors incl. unknown type hints) x 11 placements x 3 resume histories is run in a fresh simulated session; "
             "every :resume must stop again with the same message, position and frame, re-execute the same step, print "
             "nothing, and an interrupt landing inside a resume must be reported. Five placements per site in the quick "
             "tier (function frame, toplevel, three seeded), complete over (site x placement) in the thorough tier.",
        note="Site list is derived from the repository's own .gdn declarations plus a hand-written list of language-level "
             "errors; errors only reachable through other paths are not covered.",
        design_ref="DESIGN.md section 3, C07",
    ),
    "C09": dict(
        engine="sessim",
        category="exploration",
        technique="deterministic simulation of seeded request histories against the real reader/worker handlers, with "
                  "step-indexed interrupt injection, idle interrupts, bursts and malformed requests; history oracle",
        text="Seeded histories of 3..25 requests (swarm-weighted mix of definitions, expressions, failing sites, "
             "in-context expressions, test definitions, load, eval_up_to (also on an edited definition right after evaluating "
             "another variant of it), malformed requests, 75 command forms issued in any state, with non-ASCII whitespace "
             "and arguments) plus a fixed epilogue; oracle over the recorded history: no handler panics, exactly one "
             "response per request in request order with the request's id when present, exactly one well-formed ack "
             "per interrupt request. Panics are attributed to known defect families by counterfactual replay.",
        note="The stdin framing loop is not simulated; thread spawn/recv loop are sequenced by the simulator. Panics that "
             "need :skip/:replace, a C07-known error site, or a test run while stopped are known findings keyed by "
             "family and symptom.",
        design_ref="DESIGN.md section 3, C09",
    ),
    "C10": dict(
        engine="sessim",
        category="exploration",
        technique="deterministic simulation of session histories that stop at depth (runtime error or injected interrupt at "
                  "step k), abort, then probe; refinement against a fresh-session reference model",
        text="Seeded cases: completed toplevel work P, 1..3 nested stops (error sites in functions / blocks, or an "
             "interrupt at step k of a generated program; for a share of cases every k), expressions evaluated in the "
             "stopped context, optional idle interrupt, :abort once or twice, then probes. Every probe response "
             "(value/message, position, frame name, output) must equal that of a fresh simulated session given P only; "
             ":fvalues may show fewer values than the fresh session but never other ones.",
        note="Stops are generated so that they do not define or assign toplevel variables (a bare toplevel block does not "
             "open a scope in Garden, so such lets are toplevel variables and the property text is ambiguous about them).",
        design_ref="DESIGN.md section 3, C10",
    ),
    "C11": dict(
        engine="sessim",
        category="exploration",
        technique="deterministic simulation of incremental session histories with transparent faults (interrupt at step k "
                  "+ :resume, read-only commands, bursts); refinement against a one-request batch reference model",
        text="Seeded error-free histories of 2..9 inputs (unique definitions - methods possibly before their type -, toplevel "
             "lets, assignments, loops, prints, passing test definitions, bare toplevel blocks, comments, non-ASCII strings, a "
             "final expression or block folding all live state) are run incrementally fault-free, incrementally with transparent "
             "faults, and as one concatenated request in a fresh session; the last value text and the concatenated output "
             "must agree, and a history that succeeds incrementally must not fail as one program. The two incremental "
             "configurations are counted and reported separately.",
        note="Without the fault configuration this is differential testing of histories; the object is a stateful server "
             "and the persistence between requests and the interleaved interrupts are what the simulator owns. Histories "
             "whose batch run is not error-free are skipped and counted.",
        design_ref="DESIGN.md section 3, C11",
    ),
    "C30": dict(
        engine="threadsim",
        category="exploration",
        technique="deterministic simulation of the real nREPL server threads under the seeded shuttle scheduler (random and "
                  "PCT), simulated timers, fault-injecting bencode transport; oracle over the totally ordered wire log",
        text="Seeded client workloads x seeded schedules: every spawn, channel operation, join, sleep, timer expiry and "
             "evaluation step of the real serve_connection (reader/dispatcher, shutdown sequence), session workers, output "
             "flushers, SIGINT watchdog and writer_thread - for one or two concurrently served connections, each driven by a "
             "simulated client (pipelining or waiting for `done`, chunked sends, disconnect, EOF mid-message) - is a decision of "
             "one seeded scheduler. Oracle over the wire log: exactly one `done` per delivered request id "
             "and nothing with that id after it; stdout/stderr tokens (self-numbering) arrive complete, in order, before "
             "the done - for interrupted evals the count is cross-checked against the program's own counter read back by a "
             "later eval; value/ex before done; per-session done order; cross-session isolation; clean termination.",
        note="A clean batch is evidence, not proof: schedules are sampled. The accept loop is not executed and TcpStream is an "
             "in-memory endpoint (hook H5) with injected EINTR, short reads/writes and EPIPE. Timers are modelled as "
             "nondeterministic expiry. The std Mutex buffers and the AtomicBool flags are not scheduling points (argued sound in DESIGN.md).",
        design_ref="DESIGN.md section 3, C30",
    ),
    "C31": dict(
        engine="threadsim",
        category="exploration",
        technique="deterministic simulation under the seeded shuttle scheduler; executable reference model of the "
                  "per-session interrupt flag replayed over the total order of flag writes, dequeue-resets and per-step checks",
        text="Same engine as C30 with an interrupt/close-heavy workload mix. Every flag write (interrupt, close, client "
             "disconnect, SIGINT broadcast by the watchdog), every worker dequeue+reset and every per-step check is logged "
             "in one total order with no scheduling point between the log entry and the real access. A small reference model "
             "of the flag is replayed over that order; each eval must end `interrupted` at exactly the first check after a "
             "flag write that followed its dequeue, iff there is one - which covers promptness (one step), idle interrupts "
             "not cancelling the next eval, close stopping the running eval, and no effect on other sessions.",
        note="The window between dispatch and dequeue is either-way in the property text; the oracle follows the code's "
             "reading (reset on dequeue wins). Promptness is stated in evaluation steps, not milliseconds.",
        design_ref="DESIGN.md section 3, C31",
    ),
    "C24": dict(
        engine="worldsim",
        category="exploration",
        technique="deterministic simulation of the environment: the real binary in a seeded scratch world (files, canary on "
                  "PATH, loaded/stalled/closed stdin, injected Ctrl-C at step k) with an effect monitor (snapshots, canary "
                  "marker, stdin accounting, strace)",
        text="Every effectful built-in (all fs:: functions, Path.exists/info, shell::run three ways, read_line) with "
             "well-typed arguments aimed at world objects, at 11 program positions, in playground-run and sandboxed-test "
             "mode, under three stdin worlds and optional Ctrl-C at step k. Oracle: world snapshot unchanged, canary not "
             "run, stdin bytes unconsumed, secret/stdin tokens absent from output, the run ends with the sandbox refusal "
             "and nothing after the call site ran, no blocked read; for half of the quick runs also no world-touching "
             "syscall, process creation or read(0) in the strace log.",
        note="The list of effectful built-ins is hand-written from src/__*.gdn (a new effectful built-in must be added to "
             "effect_calls). The built-ins the sandbox allows because they are pure (set_working_directory, working_directory, "
             "shell_arguments) are called too, always under strace: they need not be refused but no syscall may touch the "
             "world.",
        design_ref="DESIGN.md section 3, C24",
    ),
    "C25": dict(
        engine="worldsim",
        category="exploration",
        technique="bounded liveness in simulated time: the real sandboxed binary under a step monitor (hook H2), with "
                  "stalled / loaded / closed stdin and resource caps; the clock is the evaluator's tick counter",
        text="28 families of non-terminating and resource-hungry programs with seeded sizes (three of them never-ending "
             "loops whose bodies come from the general program generator: continue/break, later loops, calls, closures), as "
             "playground runs and as sandboxed test bodies. During the run the monitor checks that ticks advance by exactly one per step and the "
             "frame depth stays within the limit; afterwards: the process exited by itself (no signal, no panic), printed "
             "a well-formed result, a non-terminating program ended in a resource-limit error or sandbox refusal, the "
             "number of executed steps is within the 100 000 budget, no read(0) is outstanding, and CPU time is within "
             "100x a tick-limited empty loop (confirmed twice).",
        note="Memory is capped at 1.5 GB per child; the quadratic memory use of deep value nesting is a known finding. "
             "Programs exponential in memory are not generated.",
        design_ref="DESIGN.md section 3, C25",
    ),
    "C26": dict(
        engine="worldsim",
        category="exploration",
        technique="deterministic simulation of test schedules: seeded order / selection / file split of generated test pools "
                  "run by the real `garden test`, with in-test crashes and a Ctrl-C injected at step k",
        text="For each generated pool the verdict of every test run alone (-n) is the reference; the same pool run "
             "together, as a seeded subset, with its files swapped, with one name shared by tests of two files, and with a "
             "Ctrl-C at step k must give each test the same verdict and message, summary counts equal to the `Failed:` lines, exit status non-zero exactly when a "
             "selected test did not pass; under Ctrl-C the running test is reported failed, no later test runs, and the "
             "counts stay consistent. For half of the pools the same comparison (each test alone, offset inside it, against all "
             "tests, both file orders) is made under `garden sandboxed-test`, the runner with tick and stack limits.",
        note="Apart from the interrupt, the faults are deterministic properties of the generated tests; the simulator's "
             "contribution is the order/selection schedule and the crash-then-continue structure (pop_to_toplevel is the "
             "recovery step under test). Non-terminating tests are not generated (`garden test` has no budget). Under "
             "sandboxed-test the tick budget is shared between the tests of a run: known finding.",
        design_ref="DESIGN.md section 3, C26",
    ),
    "C28": dict(
        engine="worldsim",
        category="exploration",
        technique="deterministic simulation of client behaviour and transport: seeded LSP message histories delivered to the "
                  "real server process over framed pipes whole / chunked / cut by EOF at an arbitrary byte / with malformed "
                  "headers / with malformed bodies / to a slow consumer, plus a reference run of `garden check --json`",
        text="Oracle over the framed output: for every well-formed request delivered completely (before EOF, before any "
             "frame with a malformed header; a frame whose body is not JSON leaves the stream in step and excuses nothing) exactly one response with its id, in request order, with exactly one of result/error; none "
             "for notifications; one publishDiagnostics per did* notification that carries the required fields; nothing "
             "else; the process never dies by signal or panic and exits with the protocol's status (0 after shutdown+exit "
             "or EOF, 1 after exit alone); the last diagnostics of up to two open documents equal `garden check --json` on "
             "the same text at the same path (ranges converted from byte columns to UTF-16 independently); chunked and "
             "slow-consumer deliveries give the same byte stream as whole delivery.",
        note="No in-process fast path: every history is a real process. After a frame with a malformed header only "
             "liveness and exit status are required. Documents may import files of the scratch world; the positions of "
             "diagnostics that belong to an imported file are a known finding. Documents on which the front end reports a position outside its own line are compared "
             "on start/severity/message only (that inconsistency is C23's subject).",
        design_ref="DESIGN.md section 3, C28",
    ),
}

PENDING = {}

NOT_APPLICABLE = {
    "C01": "lex/parse/check never crash: a pure function of one source string; no schedule, clock, fault or history to simulate (fuzzing territory)",
    "C02": "evaluation never panics: a pure function of one program; no fault or schedule in the statement",
    "C03": "operator-chain grouping: pure parser function",
    "C04": "integer/float arithmetic laws: pure function of two operands",
    "C05": "core programs vs reference interpreter: differential testing of a pure function of the program",
    "C06": "block-local scoping after break/continue/return: pure function of one uninterrupted program",
    "C12": "printed values read back: pure round-trip of a value",
    "C13": "== is structural: pure function of two values",
    "C14": "subtyping preorder: law over types; proof/enumeration territory",
    "C15": "join is an upper bound: law over type pairs",
    "C16": "checked programs raise no type errors: relation between two pure functions of one program",
    "C17": "formatting preserves meaning: pure function of the source",
    "C18": "formatting idempotent: pure function of the source",
    "C19": "rename: pure function of (source, offset, name)",
    "C20": "extract variable/function: pure function of (source, range, name)",
    "C21": "wrap-in-dbg / add-type-annotation: pure function of (source, range)",
    "C22": "check --fix edits: pure function of the source",
    "C23": "reported positions consistent: pure function of the source",
    "C27": "eval-up-to value: pure function of (program, offset); the stop-at mechanism involves no asynchronous event",
    "C29": "LSP offset/position arithmetic: pure function of (document, offset)",
    "C32": "prelude string/list functions: pure functions of their arguments",
    "C33": "print-then-parse of syntax trees: pure round-trip",
    "C34": "import visibility: pure function of a project directory's contents; no fault in the statement",
}


def main():
    hook_commits = subprocess.run(
        ["git", "-C", "/repo", "log", "--format=%H %s", "--grep=^verif hook"],
        capture_output=True, text=True).stdout.strip().splitlines()
    checks = []
    for pid in sorted(CHECKS):
        c = CHECKS[pid]
        checks.append({
            "property_id": pid,
            "quick_cmd": f"./check {pid} --tier quick",
            "thorough_cmd": f"./check {pid} --tier thorough",
            "evidence_file": f"/verif/evidence/{pid}.json",
            "replay_cmd_template": f"./check {pid} --replay {{path}}",
            "engine": c["engine"],
            "level_claimed": {"category": c["category"], "text": c["text"], "design_ref": c["design_ref"]},
            "level_note": c["note"],
            "technique": c["technique"],
        })
    na = [{"property_id": p, "reason": r} for p, r in sorted(NOT_APPLICABLE.items())]
    for p, r in sorted(PENDING.items()):
        na.append({"property_id": p, "reason": r})
    na.sort(key=lambda x: x["property_id"])
    manifest = {
        "version": 1,
        "setup_cmd": "./check build",
        "hooks": {
            "guard": "--cfg wilfred_garden_verif",
            "enable": "cargo build --release with the shadow manifest /verif/sim/Cargo.toml (bin path = /repo/src/main.rs, "
                      "rustflags --cfg wilfred_garden_verif in /verif/sim/.cargo/config.toml); done by every check",
            "baseline_off_cmd": "cd /repo && cargo test --workspace --no-fail-fast --offline",
            "source_commits": [l.split()[0] for l in hook_commits][::-1],
            "add_only": True,
        },
        "engines": [
            {"name": "sessim", "path": "/verif/sim/src/json_api.rs",
             "serves_properties": ["C07", "C08", "C09", "C10", "C11"],
             "kind_free_text": "in-process simulated JSON session: real reader/worker handlers, simulator-owned sequencing, "
                               "step-indexed fault injection through hook H2"},
            {"name": "threadsim", "path": "/verif/sim/src/nrepl_api.rs", "serves_properties": ["C30", "C31"],
             "kind_free_text": "real nREPL server threads (serve_connection, writer, workers, flushers, watchdog; 1-2 connections) "
                               "under the seeded shuttle scheduler with simulated timers and a fault-injecting in-memory socket"},
            {"name": "worldsim", "path": "/verif/harness/worldsim.py", "serves_properties": ["C24", "C25", "C26", "C28"],
             "kind_free_text": "the real binary in a seeded simulated world (scratch fs, canary on PATH, loaded/stalled/closed "
                               "stdin, chunked framed streams, EOF at arbitrary byte, step-indexed Ctrl-C through VERIF_FAULTS)"},
        ],
        "checks": checks,
        "not_applicable": na,
        "notes": "Controller: /verif/check (python3, stdlib only). Exit 0 held / 1 violation / 2 harness error. "
                 "Known findings: /verif/known_findings.txt. Replays: /verif/out/replays/<id>/.",
    }
    with open(os.path.join(VERIF, "MANIFEST.json"), "w") as f:
        json.dump(manifest, f, indent=1)
        f.write("\n")
    print("MANIFEST.json written:", len(checks), "checks,", len(na), "not_applicable")


if __name__ == "__main__":
    main()
