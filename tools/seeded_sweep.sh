#!/bin/bash
# usage: tools/seeded_sweep.sh [dir-name-glob]     e.g. tools/seeded_sweep.sh 'C30_*'
# Runs every seeded change under /verif/seeded through the quick tier of the check of the property it
# breaks, each on a scratch worktree of /repo's HEAD with its own hooked build (tools/eval_mutant.sh),
# and prints one line per change: caught (violation keys) or MISSED.  Reproduces DESIGN.md section 10.
pat="${1:-*}"
missed=0
for d in /verif/seeded/$pat/; do
  name=$(basename "$d"); pid=${name%%_*}
  p="$d/patch.diff"; [ -f "$d/patch_ported.diff" ] && p="$d/patch_ported.diff"
  log=$(mktemp)
  /verif/tools/eval_mutant.sh "$pid" "$p" --tier quick --no-minimise > "$log" 2>&1
  if grep -q "^VIOLATION property=$pid" "$log"; then
    echo "$name: caught $(grep -o 'key=[^ ]*' "$log" | sort -u | tr '\n' ' ' | cut -c1-200)"
  else
    echo "$name: MISSED ($(tail -1 "$log" | cut -c1-80))"; missed=$((missed+1))
  fi
  rm -f "$log"
done
echo "missed: $missed"
[ "$missed" = 0 ]
