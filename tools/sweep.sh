#!/bin/bash
# usage: tools/sweep.sh <tier> <seed...>   - runs every check at the given seeds into ./scratch (for `vp run`)
tier="$1"; shift
export VERIF_SCRATCH=./scratch
rc=0
for seed in "$@"; do
  for p in C07 C08 C09 C10 C11 C30 C31 C24 C26 C28 C25; do
    echo "=== $p seed=$seed tier=$tier"
    /verif/check $p --tier "$tier" --seed "$seed" --no-build 2>&1 | grep -E "^VIOLATION|^KNOWN|key=|HARNESS|^\[$p\] cases|WARNING" | cut -c1-400
    r=${PIPESTATUS[0]}
    echo "=== $p seed=$seed exit=$r"
    [ "$r" != "0" ] && rc=1
  done
done
exit $rc
