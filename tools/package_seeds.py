#!/usr/bin/env python3
"""Copies the sub-agents' seeded changes from their scratch worktrees into /verif/seeded/<ID>_m<N>/
(patch.diff, the demonstration with its helper files, the author's description, meta.json).

meta.json records: the property, what the change needs in order to manifest, the independent
confirmation (tools/confirm_seed.sh: demonstration passes on the clean tree and fails with the change,
repository test suite with the change) and the result of running the owning check against the change
(tools/eval_mutant.sh: violation classes reported)."""
import glob
import json
import os
import re
import shutil
import subprocess
import sys

SRC = sys.argv[1] if len(sys.argv) > 1 else "/tmp/seed"
ROUND = sys.argv[2] if len(sys.argv) > 2 else ""   # "" for the first round, "r2" for the second
DST = "/verif/seeded"

NEEDS_R2 = {
    "C07_r2m1": "a dict literal with two or more entries whose non-String key is in the 2nd or a later entry, then :resume: popped pairs are pushed back in the opposite order (same message, different position)",
    "C07_r2m2": "an error raised by the return-type check at frame exit (wrong type, early return, unknown type), then :resume: eval()'s nothing-pending shortcut answers Unit",
    "C08_r2m1": "the last toplevel expression of the request is a `for` loop, an interrupt lands during it, :resume: stop_at_expr_id is only restored on the success path, the resumed loop stops at loop entry",
    "C08_r2m2": "the interrupt is observed exactly at the FINAL step of the request's last toplevel expression: the check moved after the step returns Interrupted instead of the finished value",
    "C09_r2m1": "`x += e` with x unbound or non-Int, then :resume twice: the right-hand value is popped before the checks and not restored, the second resume pops an empty stack",
    "C09_r2m2": "call f(a), then eval_up_to on an edited f(a, b) with the offset on b: prev_args[i] out of bounds",
    "C10_r2m1": "an interrupt arriving WHILE the last statement of a function body executes: a second check at frame return reports it without clearing the flag; after :abort the first evaluation is cancelled",
    "C10_r2m2": "a stop inside a call made from a toplevel block with locals, then :abort: the innermost frame is cleaned instead of frame 0",
    "C11_r2m1": "the last input is a toplevel `+=`/`-=` and the previous expression input ended in a call of a user function: the update no longer pushes its Unit, a stale value is reported",
    "C11_r2m2": "an input that places a let / assignment / expression BEFORE a trailing definition: the expressions are skipped",
    "C24_r2m1": "sandboxed-test where the first run exhausts the tick budget before reaching the unsafe call: the retry with a larger budget starts from an Env cloned before enforce_sandbox was set",
    "C24_r2m2": "the built-in function VALUE handed to a prelude higher-order method ([path].map(fs::remove_file)): calls from standard-library frames are trusted",
    "C25_r2m1": "the limit error lands in an earlier evaluation of the same run and a later one loops: tick limit fires only on the exact tick",
    "C25_r2m2": "a `continue` executed while a later statement of the same body is a loop that has not started: index scan never advances (native spin)",
    "C26_r2m1": "SIGINT while a test body runs and every earlier test passed: the interrupted test is never recorded (exit 0)",
    "C26_r2m2": "two selected tests sharing a name with different verdicts: each occurrence runs the last definition's body",
    "C28_r2m1": "a frame whose JSON body has an error before its last byte (bad token mid-body, trailing garbage): streaming parse leaves the rest unread, framing never resynchronises",
    "C28_r2m2": "a didOpen for a URI the store already holds (open twice, or didChange on a never-opened URI then didOpen): the old text is kept",
    "C30_r2m1": "the flusher's clone-send-clear running while the evaluator appends",
    "C30_r2m2": "print quota landing inside a multi-byte character",
    "C31_r2m1": "an interrupt followed by another request for the same session before the running eval next checks the flag: dispatch clears the flag",
    "C31_r2m2": "a running eval with slow steps: flag checked every 10 000 ticks",
}

NEEDS_R3 = {
    "C07_r3m1": "an interrupt landing while the session is stopped on a return-type error of a finished frame: a second check after the return value is popped reports Interrupted without pushing it back; later resumes report a different error",
    "C07_r3m2": "the mistyped function called in STATEMENT position (value unused): the value is pushed back for :resume only if the caller uses it; the second resume pops an empty stack",
    "C08_r3m1": "the interrupt observed exactly at the last step of the request's last toplevel expression (check moved after the step)",
    "C08_r3m2": "a run request that names a file the session has not evaluated yet, interrupted inside a user function, then later toplevel code of the same request uses a definition of that file: the previous namespace is put back on error",
    "C09_r3m1": "`for (a, b) in [(1, 2, 3)] { a }` then :resume: that error exit restores the loop's list and index swapped",
    "C09_r3m2": "an interrupt read after :resume (or :skip/:replace/:test) was sent but before the eval thread starts it, the resumed evaluation being endless: the helper clears the flag before evaluating",
    "C10_r3m1": "a stop in a frame of another namespace (None.or_throw() in the prelude), at least one expression evaluated while stopped, then :abort: the toplevel namespace switch no longer requires depth 1",
    "C10_r3m2": "a stop inside a call made from a toplevel block with locals, then :abort: the innermost frame is cleaned instead of frame 0",
    "C11_r3m1": "a method on an enum sent in an earlier request than the enum: methods kept only if the redefinition is the same kind of type",
    "C11_r3m2": "a toplevel let, then a later request with a passing test definition, then a read of the variable: pop_to_toplevel rebuilds the stack and drops toplevel variables",
    "C25_r3m1": "a `continue` executed while a later statement of the same body is a loop that has not started: native spin out of reach of the limits",
    "C25_r3m2": "the tick limit already hit earlier in the same run, followed by another non-terminating unit of work: limit fires only at the exact tick",
}

NEEDS = {
    "C07_m1": "a user function with >= 2 type-hinted parameters called with an ill-typed argument (arguments not all equal), then :resume: check_param_types pushes the arguments back in call order instead of stack order",
    "C07_m2": "a return-type mismatch of a user function/method/closure (the only error that stops with an empty exprs_to_eval in a callee frame), then :resume: eval()'s nothing-pending shortcut no longer requires stack depth 1 and answers Unit",
    "C07_m3": "a float operator with a Float left and an Int right operand (1.5 +. 2), then :resume: the restore vector holds the right operand twice",
    "C08_m1": "an interrupt landing exactly on a loop back-edge step (While/ForIn DoneRunBlock), then :resume: the bindings block is popped twice",
    "C08_m2": "an interrupt landing on a step of the TOPLEVEL frame (not inside any function), then :resume: the resume arm pops to toplevel when the stack depth is 1 and drops the rest of the program",
    "C08_m3": "an interrupt that arrives WHILE the shell::run step is executing (not between steps), then :resume: the built-in consumes the flag after the command has run and the command is executed again",
    "C09_m1": "an error inside a block of the toplevel frame, then :abort, then :skip (or :replace): pop_to_toplevel keeps frame 0's pending expressions while truncating its scopes -> pop_block assertion kills the eval thread",
    "C09_m2": "define and CALL fun f(a), then eval_up_to with an edited source fun f(a, b) and the offset on the new parameter: prev_args[i] indexes past the saved arguments",
    "C09_m3": "a command whose first whitespace character is multi-byte (`:type\\u00a01 + 2`, `:forget\\u3000f`): slice inside a UTF-8 sequence panics the eval thread",
    "C10_m1": "a session stopped directly in the toplevel frame at least one block deep with no user function on the stack, then :abort: Abort only pops when the stack has more than one frame",
    "C10_m2": "a session stopped inside a called function whose call sits in a nested block of the toplevel expression, then :abort: the reset lands on the innermost frame instead of frame 0 (locals stay visible, :resume runs the tail)",
    "C10_m3": "a toplevel expression with two or more block scopes open when it stops (throw in an `if` inside a `for` body), then :abort: only one scope is popped",
    "C11_m1": "a method sent in an EARLIER request than the enum it belongs to: the stub type is a struct, add_type drops the methods when the kind changes",
    "C11_m2": "a bare toplevel block that follows a toplevel expression in the same input (or ends the history): the stop-at id is only recorded for expression items",
    "C11_m3": "a non-ASCII character in a string or comment of an earlier input: default end_offset counts chars instead of bytes, so the one-program submission is truncated",
    "C24_m1": "stdin of the sandboxed process is not a terminal (pipe/file): read_line is refused only when stdin is a tty",
    "C24_m2": "fs::write_bytes with an EMPTY list: the sandbox check moved into the per-byte loop, the file is created/truncated",
    "C24_m3": "fs::set_working_directory in the sandbox on an absent path or a symlink: it now canonicalizes the path (stat/readlink of the host file system; Ok/Err reveals existence)",
    "C25_m1": "the tick budget exhausted once and evaluation continuing in the same Env (two looping tests, or a looping test followed by a toplevel loop): limit compared with == instead of >=",
    "C25_m2": "`sandboxed-test` (DoNotWrite output mode), a test reaching read_line(), stdin open but silent: refused only in JSON output mode",
    "C25_m3": "a `continue` executed in a loop whose body has a LATER loop statement that has not started: eval_continue spins natively without popping, out of reach of the tick limit (ported onto the repaired eval_continue: patch_ported.diff)",
    "C26_m1": "a test that errors inside a function it called, followed by another selected test: only one frame is popped between tests, the failed test's body resumes under the next test",
    "C26_m2": "two files defining a test with the same name and different verdicts: selected tests de-duplicated by bare name, only the first runs",
    "C26_m3": "SIGINT while a test is evaluating and no other selected test failed: the interrupted test is printed as failed but not counted for the exit status",
    "C28_m1": "a REQUEST (with id) whose unknown method starts with `$/`: swallowed like a `$/` notification, never answered",
    "C28_m2": "a frame with a correct Content-Length whose JSON body is cut off (or Content-Length: 0): treated as stdin closing, the server exits 0",
    "C28_m3": "a document with an import that fails to load (missing file, unknown built-in, broken file): load diagnostics discarded, published diagnostics are a strict subset of `garden check`",
    "C30_m1": "the output flusher running while the evaluator appends (eval printing across a flush): buffer cloned, sent, then cleared - text appended in between is wiped",
    "C30_m2": "a client that pipelines several requests into one TCP segment: a new BufReader per request discards the bytes buffered after the first message",
    "C30_m3": "an eval with nrepl.middleware.print/quota whose byte offset falls inside a multi-byte character of the printed value: slicing panics the session worker, no `done`",
    "C31_m1": "an interrupt/close arriving after the request is dequeued but before the first interpreter step: the flag reset moved from dequeue to just before evaluation",
    "C31_m2": "an interrupt handled while the session is idle followed by a `load-file` (no eval in between): reset on dequeue only for Eval requests",
    "C31_m3": "a running eval whose individual steps are slow: flag checked only every 1024 ticks",
}

HELPERS = ["drv.py", "session.py", "jsdrive.py", "nrepl_lib.py", "run_nrepl_goldens.py", "check_nrepl_reftests.py", "m1_demo_tests.gdn", "m1_demo_playground.gdn",
           "m2_demo_tests.gdn", "m2_demo_playground.gdn", "sess.py", "gsession.py", "check_nrepl_interrupt.py", "jsession.py", "democheck.py", "c11_harness.py", "lspclient.py",
           "nrepl_client.py", "check_nrepl_goldens.py", "interrupt_eval_slow.jsonl"]


def main():
    props = {}
    for line in open("/verif/properties.jsonl"):
        p = json.loads(line)
        props[p["id"]] = p["title"]
    base = subprocess.run(["git", "-C", os.path.join(SRC, "C07"), "rev-parse", "HEAD"], capture_output=True, text=True).stdout.strip()
    n_done = 0
    for d in sorted(glob.glob(os.path.join(SRC, "C*", "out"))):
        pid = os.path.basename(os.path.dirname(d))
        for n in (1, 2, 3):
            diff = os.path.join(d, f"m{n}.diff")
            if not os.path.exists(diff):
                continue
            key = f"{pid}_{ROUND}m{n}"
            out = os.path.join(DST, key)
            os.makedirs(out, exist_ok=True)
            shutil.copy(diff, os.path.join(out, "patch.diff"))
            ported = os.path.join(d, f"m{n}_ported.diff")
            if os.path.exists(ported):
                shutil.copy(ported, os.path.join(out, "patch_ported.diff"))
            for f in glob.glob(os.path.join(d, f"m{n}_demo*")) + glob.glob(os.path.join(d, f"m{n}.md")):
                if os.path.getsize(f) < 200_000 and not f.endswith(".log"):
                    shutil.copy(f, os.path.join(out, os.path.basename(f).replace(f"m{n}.md", "description.md")))
            for h in HELPERS:
                if os.path.exists(os.path.join(d, h)):
                    shutil.copy(os.path.join(d, h), os.path.join(out, h))
            confirm = {}
            cf = os.path.join(SRC, "confirm", f"{pid}_m{n}.json")
            if os.path.exists(cf):
                confirm = json.load(open(cf))
            caught = {}
            lf = os.path.join(SRC, "results2" if not ROUND else "results", f"{pid}_m{n}.log")
            if os.path.exists(lf):
                txt = open(lf, errors="replace").read()
                caught = {"exit": 1 if "VIOLATION property=" in txt else 0,
                          "violation_keys": sorted(set(re.findall(r"key=(\S+)", txt)))[:8],
                          "cases_line": (re.findall(r"^\[" + pid + r"\] cases=\d+ evaluations=\d+", txt, re.M) or [""])[0]}
            meta = {
                "property": pid,
                "property_title": props.get(pid),
                "written_by": "a sub-agent that was given only the property text and its own scratch worktree",
                "base_commit": base,
                "needs_to_manifest": NEEDS.get(key) or NEEDS_R2.get(key) or NEEDS_R3.get(key, "see description.md"),
                "demonstration": sorted(os.path.basename(f) for f in glob.glob(os.path.join(out, f"m{n}_demo*"))),
                "confirmed_by_me": {
                    "how": "tools/confirm_seed.sh in the scratch worktree: clean build + demonstration, change applied + build + "
                           "demonstration, then `cargo test --offline` with the change; timing-sensitive nREPL interrupt tests "
                           "re-run alone when they failed (they fail on the unchanged tree under load too)",
                    "result": confirm,
                },
                "check_run": {
                    "how": f"tools/eval_mutant.sh {pid} <patch> --tier quick (scratch worktree of /repo HEAD + patch, own hooked build)",
                    "result": caught,
                },
            }
            json.dump(meta, open(os.path.join(out, "meta.json"), "w"), indent=1, sort_keys=True)
            n_done += 1
    print(f"packaged {n_done} seeded changes into {DST}")


if __name__ == "__main__":
    main()
