#!/bin/bash
# usage: tools/check_tree.sh <path-to-a-checkout-of-the-repo> <check args...>
# Builds the hooked binary from that checkout (own manifest copy, own target dir under
# /tmp, seeded from /verif/target) and runs ./check against it without touching /repo.
# Scratch output goes to /tmp/vt-<name>/scratch.  Remove /tmp/vt-<name> when done.
set -u
tree="$(realpath "$1")"; shift
name="$(echo "$tree" | tr '/' '_')"
work="/tmp/vt-$name"
mkdir -p "$work/sim/.cargo"
sed -e "s#path = \"/repo/src/main.rs\"#path = \"$tree/src/main.rs\"#" -e "s#\.\./vendor/#/verif/vendor/#g" /verif/sim/Cargo.toml > "$work/sim/Cargo.toml"
cp /verif/sim/Cargo.lock "$work/sim/Cargo.lock"
cat > "$work/sim/.cargo/config.toml" <<EOC
[net]
offline = true
[build]
rustflags = ["--cfg", "wilfred_garden_verif"]
target-dir = "$work/target"
EOC
if [ ! -d "$work/target" ]; then cp -r /verif/target "$work/target"; fi
( cd "$work/sim" && CARGO_NET_OFFLINE=true cargo build --release --offline 2>&1 | grep -E "^error|warning: unused" -A8 | head -40 )
if [ ! -x "$work/target/release/garden-verif" ]; then echo "HARNESS-ERROR: build failed"; exit 2; fi
cd /verif && VERIF_REPO="$tree" VERIF_BIN="$work/target/release/garden-verif" VERIF_SCRATCH="$work/scratch" ./check "$@" --no-build
