#!/bin/bash
# usage: tools/with_patch.sh <patch.diff> <command...>
# Applies the patch to /repo, runs the command in /verif, reverts /repo.
set -u
patch="$1"; shift
if ! git -C /repo diff --quiet; then echo "refusing: /repo has uncommitted changes"; exit 2; fi
git -C /repo apply "$patch" || { echo "patch does not apply"; exit 2; }
( cd /verif && "$@" ); rc=$?
git -C /repo checkout -- .
( cd /verif && ./check build >/dev/null 2>&1 )
echo "[with_patch] command exit code: $rc"
exit $rc
