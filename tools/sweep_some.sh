#!/bin/bash
# usage: tools/sweep_some.sh <tier> <seed> <ID...>  - runs the named checks into ./scratch (for `vp run`)
tier="$1"; seed="$2"; shift 2
export VERIF_SCRATCH=./scratch
rc=0
for p in "$@"; do
  echo "=== $p seed=$seed tier=$tier"
  /verif/check $p --tier "$tier" --seed "$seed" --no-build 2>&1 | grep -E "^VIOLATION|^KNOWN|key=|HARNESS|^\[$p\] cases|WARNING|note:" | cut -c1-400
  r=${PIPESTATUS[0]}
  echo "=== $p seed=$seed exit=$r"
  [ "$r" != "0" ] && rc=1
done
exit $rc
