#!/bin/bash
# usage: tools/eval_mutant.sh <PROPERTY-ID> <patch.diff> [check args...]
# Applies the patch to a fresh scratch worktree of /repo's HEAD (never to /repo), runs
# ./check <ID> against it, then removes the worktree and its build.
set -u
pid="$1"; patch="$(realpath "$2")"; shift 2
name="mt-$pid-$(basename "$(dirname "$patch")")-$$"
wt="/tmp/$name"
git -C /repo worktree add -q "$wt" HEAD || exit 2
if ! git -C "$wt" apply "$patch"; then echo "PATCH-DOES-NOT-APPLY"; git -C /repo worktree remove --force "$wt"; exit 3; fi
/verif/tools/check_tree.sh "$wt" "$pid" "$@"; rc=$?
git -C /repo worktree remove --force "$wt"; rm -rf "/tmp/vt-$(echo "$wt" | tr '/' '_')"
echo "[eval_mutant] $pid $(basename "$(dirname "$patch")") exit=$rc"
exit $rc
