#!/bin/bash
# usage: tools/confirm_seed.sh <scratch worktree of the repo> <seed dir with mN.diff + mN_demo.*> <N> <result.json>
# Independent confirmation of a seeded change, in a scratch worktree (never /repo):
#   1. clean tree builds, the demonstration PASSES
#   2. with the change applied it builds, the demonstration FAILS
#   3. the repository's own test suite still passes with the change (cargo test --offline);
#      the timing-sensitive nREPL interrupt tests are re-run alone when they fail
# Leaves the worktree clean.  Writes a small JSON report.
set -u
wt="$(realpath "$1")"; sd="$(realpath "$2")"; n="$3"; out="$4"
export CARGO_NET_OFFLINE=true
cd "$wt" || exit 2
git checkout -q -- src 2>/dev/null
demo=""
for cand in "$sd/m${n}_demo.py" "$sd/m${n}_demo.sh"; do [ -f "$cand" ] && demo="$cand"; done
[ -n "$demo" ] || { echo "{\"error\": \"no demo\"}" > "$out"; exit 2; }
run_demo() {
  if [[ "$demo" == *.py ]]; then ( cd "$wt" && timeout 900 python3 "$demo" ) ; else ( cd "$wt" && timeout 900 bash "$demo" ); fi
}
cargo build --offline >/dev/null 2>&1 || { echo "{\"error\": \"clean build failed\"}" > "$out"; exit 2; }
run_demo > "$out.clean.log" 2>&1; rc_clean=$?
git apply "$sd/m${n}.diff" || { echo "{\"error\": \"diff does not apply\"}" > "$out"; exit 2; }
if ! cargo build --offline > "$out.build.log" 2>&1; then
  git checkout -q -- src; echo "{\"error\": \"build with the change failed\"}" > "$out"; exit 2
fi
warnings=$(grep -c "^warning" "$out.build.log")
run_demo > "$out.mutant.log" 2>&1; rc_mut=$?
timeout 3000 cargo test --offline > "$out.test.log" 2>&1
summary=$(grep "^test result:" "$out.test.log" | tail -1)
failed=$(grep -E "^test .* FAILED$" "$out.test.log" | sed -E 's/^test (.*) \.\.\. FAILED$/\1/' | sort -u | tr '\n' ' ')
retry=""
for t in $failed; do
  case "$t" in
    tests::reftest_nrepl|nrepl::tests::interrupt_aborts_eval|nrepl::tests::sigint_aborts_eval|nrepl::tests::streams_output_during_eval)
      ok=0
      for i in 1 2 3 4 5 6; do
        if timeout 600 cargo test --offline "${t##*::}" 2>&1 | grep -q "test result: ok. 1 passed"; then ok=1; break; fi
      done
      retry="$retry $t:$([ $ok = 1 ] && echo passed-alone || echo still-failing)";;
  esac
done
git checkout -q -- src
python3 - "$out" "$rc_clean" "$rc_mut" "$summary" "$failed" "$retry" "$warnings" <<'E'
import json, sys
out, rc_clean, rc_mut, summary, failed, retry, warnings = sys.argv[1:8]
json.dump({"demo_exit_clean": int(rc_clean), "demo_exit_with_change": int(rc_mut), "test_summary": summary,
           "tests_failed_in_full_run": failed.split(), "timing_tests_rerun_alone": retry.split(),
           "build_warnings_with_change": int(warnings)}, open(out, "w"), indent=1)
E
cat "$out"
